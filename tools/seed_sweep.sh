#!/bin/sh
# author's experiment: every quick check under several VERIF_SEED values (false-alarm hunt)
[ -n "$VP_RUN_REPO" ] && export VERIF_REPO=$VP_RUN_REPO
export VERIF_EVIDENCE_DIR=$PWD/work/seedsweep_evidence
mkdir -p work
for seed in ${SEEDS:-2 3 4 5}; do
  for c in C01 C02 C03 C04 C05 C06 C07 C08 C09 C10 C11 C12 C13 C14 C15 C16 C17; do
    VERIF_SEED=$seed ./check $c --tier quick > work/seed_${seed}_$c.log 2>&1; rc=$?
    echo "seed=$seed $c exit=$rc $(grep -E '^\[ok\]|VIOLATION|TOOL-ERROR|failing input' work/seed_${seed}_$c.log | head -3 | tr '\n' ' ' | cut -c1-300)"
  done
done
