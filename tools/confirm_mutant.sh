#!/bin/bash
# usage: tools/confirm_mutant.sh <name> <dir with patch.diff, demo/run.sh>   -- confirm a seeded change in a scratch worktree
# Confirms: (1) patch applies to /repo HEAD, (2) builds with and without hooks, (3) the repository's test suite passes with it,
# (4) the demonstration fails with it and (5) passes without it.  Writes <dir>/confirm.log and prints a summary line.
NAME=$1; D=$2
WT=/tmp/mutcheck_$NAME
git -C /repo worktree remove --force $WT 2>/dev/null; rm -rf $WT
git -C /repo worktree add --detach $WT HEAD >/dev/null 2>&1 || { echo "$NAME: worktree failed"; exit 2; }
LOG=$D/confirm.log; : > $LOG
cd $WT
r_apply=fail; r_build=fail; r_tests=fail; r_demo_with=unknown; r_demo_without=unknown
if git apply $D/patch.diff >>$LOG 2>&1; then r_apply=ok; fi
if [ $r_apply = ok ]; then
  if cargo build --offline -p falcon-rust >>$LOG 2>&1 && cargo build --offline -p falcon-rust --features verif-hooks >>$LOG 2>&1; then r_build=ok; fi
  if cargo test --offline -p falcon-rust -- --skip test_div >>$LOG 2>&1; then r_tests=ok; fi
  if bash $D/demo/run.sh $WT >>$LOG 2>&1; then r_demo_with=passes; else r_demo_with=fails; fi
  git checkout -- . >>$LOG 2>&1
  git apply -R --check $D/patch.diff >/dev/null 2>&1 && echo "WARNING patch still applied" >>$LOG
  if bash $D/demo/run.sh $WT >>$LOG 2>&1; then r_demo_without=passes; else r_demo_without=fails; fi
fi
cd /
git -C /repo worktree remove --force $WT 2>/dev/null; rm -rf $WT
echo "$NAME apply=$r_apply build=$r_build tests_with_patch=$r_tests demo_with=$r_demo_with demo_without=$r_demo_without" | tee -a $LOG
