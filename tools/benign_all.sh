#!/bin/bash
# Benign refactorings (seeded/benign-*): every listed property still holds under each of them, so the checks named in its meta.json
# must exit 0.  Applied in a scratch worktree (VERIF_REPO), never in /repo.  Also confirms that the patch builds and the 61 baseline
# tests pass.  Output: seeded/BENIGN.md
cd /verif
WT=/tmp/benign_sweep_wt
export VERIF_WORK=/verif/work/benign VERIF_EVIDENCE_DIR=/verif/work/benign/evidence
mkdir -p $VERIF_WORK
OUT=seeded/BENIGN.md
echo "| benign change | baseline tests | check | exit | verdict |" > $OUT.tmp; echo "|---|---|---|---|---|" >> $OUT.tmp
for d in seeded/benign-*/; do
  id=$(basename $d)
  git -C /repo worktree remove --force $WT 2>/dev/null; rm -rf $WT
  git -C /repo worktree add --detach $WT HEAD >/dev/null 2>&1
  git -C $WT apply /verif/$d/patch.diff || { echo "| $id | - | - | - | patch does not apply |" >> $OUT.tmp; continue; }
  if (cd $WT && cargo test --offline -p falcon-rust -- --skip test_div > $VERIF_WORK/$id.tests.log 2>&1); then bt=pass; else bt=FAIL; fi
  for prop in $(python3 -c "import json;print(' '.join(json.load(open('$d/meta.json'))['checks_to_run']))"); do
    VERIF_REPO=$WT ./check $prop --tier quick > $VERIF_WORK/${id}_$prop.log 2>&1; rc=$?
    v="no alarm"; [ $rc = 1 ] && v="FALSE ALARM"; [ $rc = 2 ] && v="tool-error"
    echo "| $id | $bt | $prop | $rc | $v |" >> $OUT.tmp
    echo "$id $prop tests=$bt exit=$rc $v"
  done
done
git -C /repo worktree remove --force $WT 2>/dev/null; rm -rf $WT
mv $OUT.tmp $OUT
