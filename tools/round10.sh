#!/bin/bash
# usage: tools/round10.sh <Cxx> [suffix]  -- take a sub-agent's deliverable from /tmp/mut/out10/<Cxx>, keep it as seeded/<Cxx>-<suffix>,
# confirm it in a scratch worktree (tools/confirm_mutant.sh) and remove the agent's worktree.
C=$1; S=${2:-h}; SRC=/tmp/mut/out10/$C; D=/verif/seeded/$C-$S
[ -s $SRC/patch.diff ] || { echo "$C: no patch.diff"; exit 2; }
mkdir -p $D; cp -r $SRC/patch.diff $SRC/demo $D/; [ -f $SRC/notes.md ] && cp $SRC/notes.md $D/
git -C /repo worktree remove --force /tmp/mut/$C 2>/dev/null; rm -rf /tmp/mut/$C
bash /verif/tools/confirm_mutant.sh $C-$S $D
