#!/bin/bash
# Run every seeded change against its property's quick check; write seeded/RESULTS.md.  (Each run applies the patch to /repo and restores it.)
cd /verif
OUT=seeded/RESULTS.md
echo "| seeded change | property | check exit | verdict |" > $OUT.tmp; echo "|---|---|---|---|" >> $OUT.tmp
for d in seeded/*/; do
  id=$(basename $d); [ -f $d/patch.diff ] || continue
  prop=$(python3 -c "import json;print(json.load(open('$d/meta.json'))['property'])")
  tools/mutant.sh /verif/$d/patch.diff $prop quick > work/seeded_$id.log 2>&1; rc=$?
  v="MISSED"; [ $rc = 1 ] && v="detected"; [ $rc = 2 ] && v="tool-error"
  echo "| $id | $prop | $rc | $v |" >> $OUT.tmp
  echo "$id $prop exit=$rc $v"
done
mv $OUT.tmp $OUT
