#!/bin/bash
# Run every seeded change against its property's quick check and write seeded/RESULTS.md.
# Each change is applied in a scratch worktree of /repo HEAD (outside /repo and /verif) and the check is pointed at it with
# VERIF_REPO, with its own scratch directory (VERIF_WORK), so /repo itself is never touched and other work can go on meanwhile.
# (tools/mutant.sh does the same thing directly on /repo, the way the brief describes: apply, run, undo.)
cd /verif
OUT=${OUT:-seeded/RESULTS.md}
WT=/tmp/seeded_sweep_wt
export VERIF_WORK=/verif/work/sweep VERIF_EVIDENCE_DIR=/verif/work/sweep/evidence
mkdir -p $VERIF_WORK
echo "| seeded change | property | check exit | verdict | first reported failing input |" > $OUT.tmp; echo "|---|---|---|---|---|" >> $OUT.tmp
for d in seeded/*/; do
  id=$(basename $d); [ -f $d/patch.diff ] || continue
  [ -n "$ONLY" ] && ! echo "$id" | grep -qE -- "$ONLY" && continue
  case $id in benign-*) continue;; esac
  prop=$(python3 -c "import json;print(json.load(open('$d/meta.json'))['property'])")
  git -C /repo worktree remove --force $WT 2>/dev/null; rm -rf $WT
  git -C /repo worktree add --detach $WT HEAD >/dev/null 2>&1
  if ! git -C $WT apply /verif/$d/patch.diff 2>/dev/null; then echo "| $id | $prop | - | patch does not apply | |" >> $OUT.tmp; continue; fi
  VERIF_REPO=$WT ./check $prop --tier quick > $VERIF_WORK/seeded_$id.log 2>&1; rc=$?
  v="MISSED"; [ $rc = 1 ] && v="detected"; [ $rc = 2 ] && v="tool-error"
  first=$(grep -m1 "failing input" $VERIF_WORK/seeded_$id.log | cut -c18-200 | tr '|' '/')
  echo "| $id | $prop | $rc | $v | \`$first\` |" >> $OUT.tmp
  echo "$id $prop exit=$rc $v"
done
git -C /repo worktree remove --force $WT 2>/dev/null; rm -rf $WT
mv $OUT.tmp $OUT
