#!/bin/sh
# author's experiment: run every thorough check once, sequentially, logging times (use with: vp run --with-repo -- tools/thorough_all.sh)
[ -n "$VP_RUN_REPO" ] && export VERIF_REPO=$VP_RUN_REPO
export VERIF_EVIDENCE_DIR=$PWD/work/thorough_evidence
mkdir -p work
for c in ${*:-C12 C11 C13 C14 C09 C06 C02 C07 C17 C15 C16 C05 C04 C01 C08 C03 C10}; do
  s=$(date +%s)
  ./check $c --tier thorough > work/thorough_$c.log 2>&1; rc=$?
  e=$(date +%s)
  echo "$c exit=$rc wall=$((e-s))s $(grep -E '^\[ok\]|VIOLATION|TOOL-ERROR' work/thorough_$c.log | head -2 | tr '\n' ' ')"
done
