#!/usr/bin/env python3
"""Regenerate MANIFEST.json from the table below (kept here so that MANIFEST stays consistent)."""
import json, os
V = os.path.dirname(os.path.dirname(os.path.abspath(__file__)))
props = [json.loads(l) for l in open(os.path.join(V, "properties.jsonl"))]
CLAIMS = {
 "C01": ("TLC model checking of Falcon.tla (Completeness, CosetInvariant for all keys x all z in a box; broken variants, vacuity guards) + TLC trace validation of real sign/verify calls: TLC-generated forced retry paths, scripted far first candidates, one-thread call sequences, 16 threads on one key",
         "Exhaustive on the toy ring for the lattice algebra and the retry skeleton; on the real code every recorded honest signature (keys x message lengths x forced retry patterns x scripted generator x 16 threads) is re-verified by TLC from bytes with SHAKE-256 and Algorithm 16 evaluated in TLA+.",
         "TLC, CommunityModules; transcription of Algorithms 3/10/16/18; fault taps force retries without changing the computation; integrality of ffSampling observed not proved", "5/C01"),
 "C02": ("TLC trace validation: SpecVerify (Algorithms 16+3+18 in TLA+, SHAKE-256 included) recomputed from raw bytes on an adversarial corpus incl. exact-norm boundary triples built through crafted public keys, centred-reduction edge, call sequences and cross-variant keys; judged on acceptance; binding self-tests in the thorough tier",
         "Each recorded verify call must equal the TLA+ definition evaluated by TLC; the corpus is constructed to sit on every decision boundary (norm = bound-1/bound/bound+1, malformed bodies, bit flips, degenerate keys).",
         "TLC; MC_Ntt and MC_Keccak justify the fast evaluators used inside SpecVerify", "5/C02"),
 "C03": ("TLC model checking of an implementation-shaped decompress model (panic states unreachable on all strings of length <= 3) + replay of all TLC-generated cases + TLC trace validation of decoder/verify families with panic as an outcome",
         "Totality is a model property of ImplCodec (Rust integer types explicit) checked exhaustively on short inputs, and an observed property of the real code on exhaustive short inputs, boundary families at production size and bulk fuzz; trace specs have no action that accepts a panic.",
         "rustc overflow checks define overflow; catch_unwind observes every panic; no unsafe in the crate", "5/C03"),
 "C07": ("TLC model checking of Codec.tla (canonicity, round trip on all strings of length <= 3 and box vectors) + TLC-generated exhaustive cases replayed on the real compress/decompress + TLC trace validation of production-size families",
         "Exhaustive for short strings in both directions (spec theorems and real code), constructed boundary families at (512,625) and (1024,1239) judged by TLC.",
         "TLC; hook wrappers verif::compress/decompress are thin", "5/C07"),
 "C08": ("TLC model checking of Falcon.tla (SaltsFresh, SaltDrawnOnce under all interleavings; broken variants must fail) + Apalache inductive invariant for unbounded calls/retries (SaltModel) + TLC trace validation of multi-process multi-thread sign histories incl. deterministic operations before signing",
         "All interleavings of the abstract entropy model; on the real code whole histories (3 processes x 16 threads) are checked for repeated salts, constant byte positions and equal signatures of equal messages.",
         "unpredictability of ThreadRng trusted; 'never' decided on the observed history", "5/C08"),
 "C15": ("TLC model checking of Falcon.tla (KeygenFunctional, KeysStable, SeedSensitive; broken variant must fail) + TLC trace validation of keygen histories across threads, processes and all 256 seed bit flips",
         "Determinism under every interleaving in the model; on the real code identical digests for repeated seeds in threads/processes/after signing, pairwise different keys for all single-bit flips.",
         "SHA3-256 digests identify byte strings; seeds sampled", "5/C15"),
}
ORDER = ["C01", "C02", "C03", "C04", "C05", "C06", "C07", "C08", "C09", "C10", "C11", "C12", "C13", "C14", "C15", "C16", "C17"]
extra = os.path.join(V, "tools", "claims_extra.json")
if os.path.exists(extra):
    CLAIMS.update({k: tuple(v) for k, v in json.load(open(extra)).items()})
checks = []
for pid in ORDER:
    if pid not in CLAIMS:
        continue
    tech, text, note, ref = CLAIMS[pid]
    checks.append({"property_id": pid, "quick_cmd": "./check %s --tier quick" % pid, "thorough_cmd": "./check %s --tier thorough" % pid,
                   "evidence_file": "/verif/evidence/%s.json" % pid, "replay_cmd_template": "./check %s --replay {path}" % pid,
                   "engine": "tlc", "level_claimed": {"category": "model_checking", "text": text, "design_ref": "DESIGN.md section " + ref},
                   "level_note": note, "technique": tech})
m = {"version": 1, "setup_cmd": "./setup.sh",
     "hooks": {"guard": "cargo feature verif-hooks (falcon-rust/Cargo.toml)",
               "enable": "harness/Cargo.toml depends on /repo/falcon-rust with features=[\"verif-hooks\"]; checks run `cargo build --release --offline` in /verif/harness",
               "baseline_off_cmd": "cd /repo && cargo test --workspace --no-fail-fast --offline",
               "source_commits": ["4b3463d", "410373f", "a51a072"], "add_only": True},
     "engines": [{"name": "tlc", "path": "/verif/spec", "serves_properties": [c["property_id"] for c in checks],
                  "kind_free_text": "explicit TLA+ specification (spec/*.tla) checked with TLC: MC_* exhaustive small-constant configs, Gen_* TLC-generated cases replayed on the real code, Trace_* validation of traces recorded from the real code (harness/)"}],
     "checks": checks,
     "notes": "Oracle is always TLA+ evaluated by TLC; Python (check, tools/) orchestrates; Rust (harness/) drives and records. Known findings (listed, printed as KNOWN-FINDING, exit 0) and fixed defects: KNOWN_FINDINGS.json. Seeded changes: seeded/.",
     "not_applicable": [{"property_id": p["id"], "reason": "check not yet built in this revision (work in progress; planned per DESIGN.md section 5)"}
                        for p in props if p["id"] not in CLAIMS]}
json.dump(m, open(os.path.join(V, "MANIFEST.json"), "w"), indent=1)
print("claimed:", [c["property_id"] for c in checks])
