#!/bin/sh
# usage: tlc.sh <workers> <metadir> <module.tla> <cfg> [extra TLC args]
# All specification modules live flat in /verif/spec (TLC resolves EXTENDS next to the root module).
W=$1; META=$2; MOD=$3; CFG=$4; shift 4
exec java -Xss512m -Xmx${TLC_XMX:-6g} -XX:+UseParallelGC \
  -cp /opt/veriftools/tla/tla2tools.jar:/opt/veriftools/tla/CommunityModules-deps.jar tlc2.TLC \
  -workers $W -metadir $META -cleanup -noGenerateSpecTE -config $CFG "$@" $MOD
