#!/bin/sh
# usage: tools/mutant.sh <patch.diff> <Cxx> [tier]  -- apply a seeded change to /repo, run one check, always undo.
P=$1; C=$2; T=${3:-quick}
cd /verif
git -C /repo diff --quiet || { echo "/repo has local changes; refusing"; exit 2; }
git -C /repo apply "$P" || { echo "patch does not apply"; exit 2; }
trap 'git -C /repo checkout -- . ; echo "[mutant] /repo restored"' EXIT INT TERM
VERIF_EVIDENCE_DIR=/verif/work/mutant_evidence ./check $C --tier $T > work/mutant_$C.log 2>&1
rc=$?
grep -E "VIOLATION|failing input|KNOWN|TOOL-ERROR|\[ok\]" work/mutant_$C.log | head -8
echo "[mutant] $(basename $(dirname $P)) on $C: exit $rc"
exit $rc
