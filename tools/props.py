"""Per-property decision procedures (DESIGN.md section 5). Each takes a runner.Check and adds
model-checking runs and validated traces to it."""
import glob
import json
import os
import runner
from runner import McOutcome, model_check, validate_traces, drive, log

PAR = max(2, runner.ncpu() - 2)


def traces_in(d, prefix):
    return sorted(glob.glob(os.path.join(d, prefix + "*.ndjson")))


def verify_key(ev, v):
    return {"ev": "verify", "tag": ev.get("tag"), "n": ev.get("n"), "spec_branch": v[3], "code_res": ev.get("res"),
            "sig_sha3": runner_sha(ev.get("sig")), "pk_sha3": runner_sha(ev.get("pk"))}


def runner_sha(b):
    import hashlib
    return hashlib.sha3_256(bytes(b or [])).hexdigest()[:16]


def c02(c):
    thorough = c.tier == "thorough"
    c.cov["rule"] = ("adversarial corpus of (msg, sig bytes, pk bytes) triples built by the driver (honest, bit-flipped, "
                     "malformed bodies, boundary norms via crafted public keys, degenerate keys); each is one event; "
                     "TLC recomputes SpecVerify from the bytes; distinct_nontrivial = number of distinct "
                     "(tag, specification branch) classes exercised")
    drive("c02", ["--tier", c.tier, "--seed", c.seed, "--out", c.work, "--shards", 16 if thorough else 12])
    to = validate_traces("Trace_Verify", traces_in(c.work, "verify"), parallel=PAR)
    c.add_traces(to, keyfn=verify_key)
    c.assumptions += ["TLC and the CommunityModules Java overrides", "transcription of Algorithms 3, 16, 18 and section 3.11 into spec/*.tla",
                      "MC_Ntt (NTT product = schoolbook product) and MC_Keccak (SHAKE-256 KATs) justify the fast evaluators"]


def replay(prop, path):
    """Re-validate the recorded failing event(s) with TLC (specification side) and print both verdicts."""
    d = json.load(open(path))
    pl = d.get("payload", {})
    if "event" not in pl:
        print(json.dumps(d, indent=1)[:4000])
        return 1
    work = runner.fresh_dir(os.path.join(runner.WORK, "replay"))
    t = os.path.join(work, "replay.ndjson")
    open(t, "w").write(json.dumps(pl["event"]) + "\n")
    module = pl.get("module") or d.get("module") or "Trace_Verify"
    to = validate_traces(module, [t], parallel=1)
    for (_, idx, ev, v) in to.mismatches:
        print("REPLAY mismatch:", v)
    print("VIOLATION property=%s replay=%s" % (prop, path) if to.mismatches else "replay: event now conforms")
    return 1 if to.mismatches else 0
