"""Per-property decision procedures (DESIGN.md section 5). Each takes a runner.Check and adds
model-checking runs and validated traces to it."""
import glob
import json
import os
import runner
from runner import McOutcome, model_check, validate_traces, drive, log

PAR = max(2, runner.ncpu() - 2)


def traces_in(d, prefix):
    return sorted(glob.glob(os.path.join(d, prefix + "*.ndjson")))


def verify_key(ev, v):
    return {"ev": "verify", "tag": ev.get("tag"), "n": ev.get("n"), "spec_branch": v[3], "code_res": ev.get("res"),
            "sig_sha3": runner_sha(ev.get("sig")), "pk_sha3": runner_sha(ev.get("pk"))}


def runner_sha(b):
    import hashlib
    return hashlib.sha3_256(bytes(b or [])).hexdigest()[:16]


def c02(c):
    thorough = c.tier == "thorough"
    c.cov["rule"] = ("adversarial corpus of (msg, sig bytes, pk bytes) triples built by the driver (honest, bit-flipped, "
                     "malformed bodies, boundary norms via crafted public keys, degenerate keys); each is one event; "
                     "TLC recomputes SpecVerify from the bytes; distinct_nontrivial = number of distinct "
                     "(tag, specification branch) classes exercised")
    drive("c02", ["--tier", c.tier, "--seed", c.seed, "--out", c.work, "--shards", 16 if thorough else 12])
    to = validate_traces("Trace_Verify", traces_in(c.work, "verify"), parallel=PAR)
    c.add_traces(to, keyfn=verify_key)
    if thorough:
        selftests(c)       # binding self-tests: corrupted traces must be rejected at the corrupted event
    c.assumptions += ["TLC and the CommunityModules Java overrides", "transcription of Algorithms 3, 16, 18 and section 3.11 into spec/*.tla",
                      "MC_Ntt (NTT product = schoolbook product) and MC_Keccak (SHAKE-256 KATs) justify the fast evaluators"]


def replay(prop, path):
    """./check Cxx --replay file: re-execute the recorded call on the code as it is now (where a replayer exists for the
    event kind: verify, compress, decompress, decode; other kinds are re-validated as recorded) and let TLC judge it again.
    Exit 1 with a VIOLATION line if the event still does not conform, 0 if it now does."""
    d = json.load(open(path))
    pl = d.get("payload", {})
    if "event" not in pl or pl["event"].get("ev") == "history":
        print(json.dumps(d, indent=1)[:4000])
        print("replay: this finding is about a whole history or a model-level run; re-run ./check %s" % prop)
        return 1
    runner.build_harness()
    work = runner.fresh_dir(os.path.join(runner.WORK, "replay"))
    t0 = os.path.join(work, "recorded.ndjson")
    open(t0, "w").write(json.dumps(pl["event"]) + "\n")
    t = os.path.join(work, "replay.ndjson")
    drive("replay-events", ["--in", t0, "--out", t])
    module = pl.get("module") or d.get("module") or "Trace_Verify"
    to = validate_traces(module, [t], parallel=1, sparse=module in ("Trace_System", "Trace_U32", "Trace_Moments"))
    for (_, idx, ev, v) in to.mismatches:
        print("REPLAY still non-conforming:", v)
    print("VIOLATION property=%s replay=%s" % (prop, path) if to.mismatches else "replay: the event now conforms to the specification")
    return 1 if to.mismatches else 0


def codec_key(ev, v):
    return {"ev": ev.get("ev"), "tag": ev.get("tag"), "n": ev.get("n"), "L": ev.get("L"),
            "code_res": ev.get("res"), "spec_branch": v[3], "input_sha3": runner_sha(ev.get("x") if ev.get("ev") == "decompress" else [c % 256 for c in ev.get("v", [])])}


def _codec_common(c, want_mc_defects=True, gen_relevant=None):
    """Shared by C07 (losslessness/canonicity) and C03 (totality of the decoder): the same machinery, the two
    properties read different parts of its verdicts."""
    thorough = c.tier == "thorough"
    mc = McOutcome()
    runs = [dict(module="MC_Codec", cfg="MC_Codec", workers=16, xmx="8g"),
            dict(module="MC_Codec", cfg="MC_Codec_L3" if thorough else "MC_Codec_L3q", workers=16, xmx="8g", timeout=5400)]
    if want_mc_defects:
        runs += [dict(module="MC_Codec", cfg="MC_Codec_D2", workers=8, expect="violation"),
                 dict(module="MC_Codec", cfg="MC_Codec_D8", workers=8, expect="violation")]
    model_check(mc, runs)
    c.add_mc(mc)
    # spec -> impl: TLC generates all cases for L = 2 (and L = 3 digests in thorough), replayed on the real code
    gen = runner.fresh_dir(os.path.join(c.work, "gen"))
    g = McOutcome()
    model_check(g, [dict(module="Gen_Codec", cfg="Gen_Codec", workers=16, env={"GEN_DIR": gen}, xmx="8g")])
    if thorough:
        model_check(g, [dict(module="Gen_Codec", cfg="Gen_Codec_L3", workers=16, env={"GEN_DIR": gen}, xmx="8g", timeout=7200)])
    c.cov["states"] += g.states
    c.cov["transitions"] += g.transitions
    c.cov["mc_runs"] += g.runs
    drive("replay-codec", ["--in", gen, "--out", c.work])
    res = json.load(open(os.path.join(c.work, "replay_result.json")))
    c.cov["evaluations"] += res["cases"]
    c.cov["gen_cases_replayed"] = res["cases"]
    c.cov["gen_cases_accepted_by_spec"] = res["accepted"]
    c.cov["exhaustive"] = True
    for s in res["samples"][:2]:
        c.cov["samples"].append({"tlc_generated_case": runner.shrink(s)})
    for m in res["mismatches"]:
        case = m["case"]
        if gen_relevant is not None and not gen_relevant(m):
            c.notes.append({"kind": "gen-" + case.get("kind", "")})
            continue
        c.violation({"kind": "gen-" + case.get("kind", ""), "x": case.get("x"), "n": case.get("n"), "v": case.get("v"),
                     "L": case.get("L"), "first": case.get("first")}, {"module": "Trace_Codec", "case": case, "code": m["code"]})
    return thorough


def c07(c):
    thorough = _codec_common(c)
    c.cov["rule"] = ("MC_Codec: all byte strings of length 2 (and 3) x n <= 3, all box vectors (canonicity, round trip, refinement of the "
                     "implementation-shaped model); Gen_Codec: every such case replayed on the real compress/decompress; Trace_Codec: "
                     "production-size families (runs at first/middle/last coefficient, cursor alignments at the buffer end, budget edges, "
                     "minus zero, padding bits, random/bit-flipped strings) judged by TLC; distinct_nontrivial = distinct (tag, spec branch) classes")
    drive("c07", ["--tier", c.tier, "--seed", c.seed, "--out", c.work, "--shards", 14, "--bulk", 2000000 if thorough else 30000])
    to = validate_traces("Trace_Codec", traces_in(c.work, "codec"), parallel=PAR)
    c.add_traces(to, keyfn=codec_key)
    c.assumptions += ["TLC + CommunityModules", "transcription of Algorithms 17/18 (Codec.tla)", "hook wrappers verif::compress/decompress are thin"]


def decode_key(ev, v):
    return {"ev": ev.get("ev"), "type": ev.get("type"), "tag": ev.get("tag"), "n": ev.get("n"), "code_res": ev.get("res"),
            "spec_branch": v[3], "input_sha3": runner_sha(ev.get("b"))}


def _decoders(c, bulk, relevant=None):
    drive("decoders", ["--tier", c.tier, "--seed", c.seed, "--out", c.work, "--shards", 14, "--bulk", bulk])
    to = validate_traces("Trace_Decode", traces_in(c.work, "decode"), parallel=PAR)
    c.add_traces(to, keyfn=decode_key, label="decode", relevant=relevant)


def is_panic(ev, v):
    return ev.get("res") == "panic" or ev.get("panics", 0) > 0 or ev.get("verify") == "panic"


def c03(c):
    thorough = _codec_common(c, gen_relevant=lambda m: m["code"].get("res") == "panic" or m["code"].get("panics"))
    c.cov["rule"] = ("totality: (1) MC_Codec: the implementation-shaped model of decompress never reaches a panic state on all strings of "
                     "length <= 3 (and its pre-fix variants do); (2) every TLC-generated codec case replayed under catch_unwind; (3) decoder "
                     "families (all 256 header bytes, length classes, field edges, random bodies) and the adversarial verify corpus recorded "
                     "with outcome in {ok, err, true, false, panic} and judged by TLC -- the trace specs have no action that accepts a panic; "
                     "(4) native bulk fuzz summarised. distinct_nontrivial = distinct (tag, spec branch) classes")
    drive("c07", ["--tier", c.tier, "--seed", c.seed, "--out", c.work, "--shards", 14, "--bulk", 3000000 if thorough else 50000])
    to = validate_traces("Trace_Codec", traces_in(c.work, "codec"), parallel=PAR)
    c.add_traces(to, keyfn=codec_key, label="codec", relevant=is_panic)
    _decoders(c, 2000000 if thorough else 30000, relevant=is_panic)
    drive("c02", ["--tier", c.tier, "--seed", c.seed + 1, "--out", c.work, "--shards", 14])
    to = validate_traces("Trace_Verify", traces_in(c.work, "verify"), parallel=PAR)
    c.add_traces(to, keyfn=verify_key, label="verify", relevant=is_panic)
    c.assumptions += ["rustc overflow checks (harness profile: overflow-checks + debug-assertions on) define 'overflow'",
                      "catch_unwind observes every panic", "memory safety beyond panics is Rust's (no unsafe in the crate)"]


def honest_only(ev, v):
    """C01 judges honestly produced signatures only: the event must have been recorded as a verify call on a signature that
    sign() itself returned (all tags of the c01 driver)."""
    return True


def c01(c):
    thorough = c.tier == "thorough"
    if runner.KEYS_NOT_SYNC:
        # C01 quantifies over threads signing concurrently with ONE shared secret key: that needs the key type to be Sync
        c.violation({"kind": "api", "what": "SecretKey / PublicKey / Signature is not Sync: one key object cannot be shared by concurrently signing threads"},
                    {"message": "the harness only builds with one clone of the key per thread (cargo: `cannot be shared between threads safely`)"})
    c.cov["rule"] = ("honest signatures: keys x message lengths (0..70000, around the SHAKE rate) x both variants; every retry pattern of the "
                     "sign skeleton up to depth 3 (5 in thorough) generated by TLC from SignLoop.tla and forced through the fault taps; "
                     "scripted extreme generator outputs; 16 threads sharing one key (every 200th signature promoted). Each signature is one "
                     "heavy event: TLC recomputes SpecVerify from the bytes and demands TRUE. distinct_nontrivial = distinct (tag, branch) classes")
    _mc_falcon(c, ["code", "algebra"] + (["deep"] if thorough else []), ["strict", "redraw"], vac=["NeverIssued", "NeverAtBound", "NeverRetried"])
    gen = runner.fresh_dir(os.path.join(c.work, "gen"))
    g = McOutcome()
    model_check(g, [dict(module="Gen_SignPaths", cfg="Gen_SignPaths_deep" if thorough else "Gen_SignPaths", workers=1, env={"GEN_DIR": gen})])
    c.add_mc(g)
    # the codec step of sign / verify on s2 vectors inside the bound that honest randomness practically never produces (large coefficients)
    drive("c01-codec", ["--tier", c.tier, "--seed", c.seed, "--out", c.work, "--shards", 14])
    to = validate_traces("Trace_Codec", traces_in(c.work, "codec"), parallel=PAR)
    c.add_traces(to, keyfn=codec_key, label="codec")
    drive("c01", ["--tier", c.tier, "--seed", c.seed, "--out", c.work, "--shards", 14, "--paths", os.path.join(gen, "signpaths.ndjson")])
    to = validate_traces("Trace_Verify", traces_in(c.work, "verify"), parallel=PAR)
    c.add_traces(to, keyfn=verify_key, label="verify")
    to2 = validate_traces("Trace_SignLoop", traces_in(c.work, "signcall"), parallel=2)
    c.add_traces(to2, keyfn=lambda ev, v: {"ev": "signcall", "tag": ev.get("tag"), "n": ev.get("n"), "pattern": ev.get("pattern"),
                                           "detail": ev.get("detail")}, label="signloop")
    c.assumptions += ["fault taps (verif::tap_norm / tap_compress) force a retry without otherwise changing the computation",
                      "ffSampling returning integral z is observed through the verifying signature, not proved for all float inputs"]


def system_key(ev, v):
    if ev.get("ev") == "history":
        return {"ev": "history", "name": ev.get("name"), "detail": ev.get("detail")}
    return {"ev": ev.get("ev"), "proc": ev.get("proc"), "thr": ev.get("thr"), "seq": ev.get("seq"), "n": ev.get("n"), "tag": ev.get("tag")}


def _mc_falcon(c, names_pass, names_broken, vac=()):
    mc = McOutcome()
    runs = [dict(module="MC_Falcon", cfg="MC_Falcon_" + n, workers=16, xmx="8g", timeout=2400) for n in names_pass]
    model_check(mc, runs)
    # broken variants and vacuity guards: small, start-up dominated -> concurrently with few workers each
    runs = [dict(module="MC_Falcon", cfg="MC_Falcon_" + n, workers=3, expect="violation", timeout=1200, xmx="2g", name="MC_Falcon_" + n) for n in names_broken]
    runs += [dict(module="MC_Falcon", cfg="MC_Falcon_vac_" + n, workers=3, expect="violation", timeout=1200, xmx="2g", name="MC_Falcon_vac_" + n) for n in vac]
    if runs:
        model_check(mc, runs, parallel=6)
    c.add_mc(mc)


def c08(c):
    thorough = c.tier == "thorough"
    c.cov["rule"] = ("MC_Falcon: SaltsFresh and SaltDrawnOnce over all interleavings of 2 (3) threads on the toy ring; the broken variants "
                     "(shared unsynchronised generator position, salt derived from the message, salt re-drawn on retry) must give "
                     "counterexamples. Trace_System: histories of real sign calls -- 3 processes x 16 threads x 2 keys x 4 messages, both "
                     "variants -- no salt repeated in the whole history, every salt byte position takes >= 200 distinct values, signatures of one "
                     "message differ. distinct_nontrivial = number of history predicates and event classes evaluated")
    _mc_falcon(c, ["code"] + (["deep"] if thorough else []), ["shared", "saltmsg", "redraw2"], vac=["NeverIssued", "NeverRetried"])
    # unbounded calls / retries / positions: inductive invariant of the entropy abstraction, discharged by Apalache
    am = McOutcome()
    runner.apalache(am, os.path.join(runner.SPEC, "apalache"), "SaltModel.tla",
                    [("Init => IndInv", ["--cinit=ConstInit", "--init=Init", "--inv=IndInv", "--length=0"]),
                     ("IndInv /\\ Next => IndInv'", ["--cinit=ConstInit", "--init=IndInit", "--inv=IndInv", "--length=1"]),
                     ("IndInv => FreshOnReturn", ["--cinit=ConstInit", "--init=IndInit", "--inv=FreshOnReturn", "--length=0"])])
    c.add_mc(am)
    drive("c08", ["--tier", c.tier, "--seed", c.seed, "--out", c.work], timeout=7200)
    to = validate_traces("Trace_System", traces_in(c.work, "system"), parallel=2, sparse=True, xmx="12g", timeout=7200)
    c.add_traces(to, keyfn=system_key, relevant=lambda ev, v: ev.get("ev") == "sign" or ev.get("name", "").startswith(("salt", "same-msg")))
    c.assumptions += ["unpredictability of rand::ThreadRng itself (rand crate, OS entropy) is trusted",
                      "'never repeated' is decided on the observed history"]


def c15(c):
    thorough = c.tier == "thorough"
    c.cov["rule"] = ("MC_Falcon: KeygenFunctional / KeysStable / SeedSensitive under all interleavings with signing threads; the broken variant "
                     "(keygen reads the thread's generator) must give a counterexample. Trace_System: the same seeds in one thread, after "
                     "signing, in 12 threads concurrently with 4 signing threads, and in 2 child processes must give identical digests; all 256 "
                     "single-bit flips of a base seed (32 for Falcon-1024 in quick) must give pairwise different keys")
    _mc_falcon(c, ["keys"], ["keyrng"])
    drive("c15", ["--tier", c.tier, "--seed", c.seed, "--out", c.work], timeout=7200)
    to = validate_traces("Trace_System", traces_in(c.work, "system"), parallel=1, sparse=True, xmx="6g")
    c.add_traces(to, keyfn=system_key, relevant=lambda ev, v: ev.get("ev") == "keygen" or ev.get("name", "").startswith("keygen"))
    c.assumptions += ["SHA3-256 digests identify the key byte strings", "'every seed' is sampled; all 256 bit positions are covered for the sampled base seeds"]


def generic_key(ev, v):
    k = {"ev": ev.get("ev"), "tag": ev.get("tag"), "branch": v[3] if len(v) > 3 else None}
    for f in ("op", "b", "n", "i", "first"):
        if f in ev:
            k[f] = ev[f]
    for f in ("str", "a", "v", "x"):
        if f in ev and isinstance(ev[f], list):
            k[f + "_sha3"] = runner_sha([int(z) % 256 for z in ev[f]])
    return k


def c12(c):
    thorough = c.tier == "thorough"
    c.cov["rule"] = ("MC_Felt: the implementation-shaped model of the field type vs arithmetic mod q on all 12289^2 operand pairs (every 16th left "
                     "operand in quick), all residues for neg/inverse/centred, all 65536 conversion inputs; the pre-fix conversion must fail. "
                     "Trace_Felt: the real code's complete unary tables entry by entry and row digests of add/sub/mul for every (quick: 256) "
                     "right operand recomputed by TLC. distinct_nontrivial = distinct (operation, event class) pairs")
    mc = McOutcome()
    model_check(mc, [dict(module="MC_Felt", cfg="MC_Felt" if thorough else "MC_Felt_q", workers=16, xmx="6g", timeout=3600),
                     dict(module="MC_Felt", cfg="MC_Felt_D3", workers=2, expect="violation")])
    c.add_mc(mc)
    drive("c12", ["--tier", c.tier, "--seed", c.seed, "--out", c.work, "--shards", 14])
    to = validate_traces("Trace_Felt", traces_in(c.work, "felt"), parallel=PAR, timeout=3600)
    c.add_traces(to, keyfn=generic_key)
    c.cov["exhaustive"] = thorough
    c.assumptions += ["hook wrappers construct operands with Felt::new(a) for a in [0,q) (identity there, itself checked by the 'new' table)"]


def c11(c):
    thorough = c.tier == "thorough"
    c.cov["rule"] = ("MC_Ntt: the butterfly network is the evaluation map at odd powers of psi for every basis vector and every n <= 1024 (hence "
                     "the product theorem, by linearity), inverse o forward = id and product = schoolbook on the toy ring exhaustively. "
                     "Trace_Ntt: the real tables (all 2059 constants) against psi^bitrev; the real fft on basis vectors (all for n <= 64, all "
                     "2047 in thorough) against the evaluation map; real ifft(fft a . fft b) against the schoolbook product in TLC at every n")
    mc = McOutcome()
    model_check(mc, [dict(module="MC_Ntt", cfg="MC_Ntt" if thorough else "MC_Ntt_q", workers=16, xmx="6g", timeout=3600)])
    c.add_mc(mc)
    drive("c11", ["--tier", c.tier, "--seed", c.seed, "--out", c.work, "--shards", 14])
    to = validate_traces("Trace_Ntt", traces_in(c.work, "ntt"), parallel=PAR, timeout=3600)
    c.add_traces(to, keyfn=generic_key)
    c.assumptions += ["linearity of each butterfly stage (by construction of the action) extends the basis-vector theorem to all inputs"]


def c14(c):
    thorough = c.tier == "thorough"
    c.cov["rule"] = ("MC_Keccak: SHAKE-256 in TLA+ against FIPS-202 known answers; MC_HashToPoint: the reader on all 6^6 pseudo-streams over the "
                     "boundary alphabet {0,12288,12289,61444,61445,65535}. Trace_Hash: real hash_to_point on strings around the SHAKE rate and "
                     "on strings searched so that the consumed stream contains 61444 / 61445 / 65535 / multiples of q / rejections in the first "
                     "and last consumed position; TLC recomputes SHAKE-256 and the rejection sampling from the string alone")
    mc = McOutcome()
    model_check(mc, [dict(module="MC_Keccak", cfg="MC_Keccak", workers=4), dict(module="MC_HashToPoint", cfg="MC_HashToPoint", workers=16)])
    c.add_mc(mc)
    drive("c14", ["--tier", c.tier, "--seed", c.seed, "--out", c.work, "--shards", 14], timeout=3600)
    to = validate_traces("Trace_Hash", traces_in(c.work, "hash"), parallel=PAR, timeout=3600)
    c.add_traces(to, keyfn=generic_key)
    c.assumptions += ["the search for boundary chunks (driver, sha3 crate) only selects inputs; the verdict is TLC's recomputation"]


# (C04 is observed at SecretKey::to_bytes: the EXPORTED (f, g, F) must be the trapdoor for which the equation was decided, so the two
# facts that tie the bytes to the in-memory polynomials count for C04 as well)
C04_FACTS = {"ntru_eq", "f_invertible", "pk_relation", "gs_first", "leaf_count", "leaves_in_range", "tree_shape", "candidate_machine", "last_candidate_accepted", "panic",
             "sk_decodes_to_original", "representable"}
C05_FACTS = {"sk_bytes", "sk_len", "pk_len", "pk_decodes", "sk_decodes_to_original", "sk_roundtrip", "pk_roundtrip", "representable", "panic"}


def _failed(v):
    d = v[4] if len(v) > 4 else None
    if isinstance(d, dict) and "#set" in d:
        return set(d["#set"])
    return set()


def key_key(ev, v):
    return {"ev": ev.get("ev"), "n": ev.get("n"), "tag": ev.get("tag"), "seed_sha3": runner_sha(ev.get("seed")),
            "failed": sorted(_failed(v)), "branch": v[3]}


def _keys(c, relevant, h512, h1024, l512, l1024):
    drive("keys", ["--tier", c.tier, "--seed", c.seed, "--out", c.work, "--shards", 14, "--heavy512", h512, "--heavy1024", h1024,
                   "--light512", l512, "--light1024", l1024], timeout=7200)
    to = validate_traces("Trace_Key", traces_in(c.work, "key.") + traces_in(c.work, "keylight"), parallel=PAR, timeout=7200)
    c.add_traces(to, keyfn=key_key, relevant=relevant, label="key")
    return to


def c04(c):
    thorough = c.tier == "thorough"
    c.cov["rule"] = ("MC_Ntru: the two-prime CRT evaluation of f G - g F = k equals the schoolbook definition over Z on all small inputs. "
                     "Trace_Key: per generated key (fixed regression seeds + VERIF_SEED-derived seeds, both variants) TLC checks f G - g F = q "
                     "exactly over Z, no zero in NTT(f), h f = g mod q, ||(g,-f)||^2 <= 16822, n leaves each in [sigma_min, 1.8205] (bit-pattern "
                     "order of doubles), accepted candidate = first not rejected. distinct_nontrivial = distinct (variant, fact set) classes")
    mc = McOutcome()
    model_check(mc, [dict(module="MC_Ntru", cfg="MC_Ntru", workers=8)])
    c.add_mc(mc)
    _keys(c, lambda ev, v: ev.get("ev") in ("key", "keylight") and bool(_failed(v) & C04_FACTS),
          200 if thorough else 8, 60 if thorough else 4, 0, 0)
    # the solver behind the equation: every level of the field-norm tower, on signed big integers
    drive("solve", ["--tier", c.tier, "--seed", c.seed, "--out", c.work, "--shards", 12])
    to = validate_traces("Trace_Solve", traces_in(c.work, "solve"), parallel=PAR, timeout=7200)
    c.add_traces(to, keyfn=generic_key, label="solve")
    # ... and its helpers: field norm, lift, Galois / Hermitian adjoint, reduction modulo x^n + 1
    drive("polyhelpers", ["--tier", c.tier, "--seed", c.seed, "--out", c.work, "--shards", 8])
    to = validate_traces("Trace_Poly", traces_in(c.work, "poly."), parallel=8, sparse=True)
    c.add_traces(to, keyfn=generic_key, label="poly")
    c.assumptions += ["'for every seed' is sampled", "leaves are observed through the read-only accessor; inner tree nodes are covered by C10's moments only",
                      "the second Gram-Schmidt bound is checked through its equivalent, the leaf range"]


def c05(c):
    thorough = c.tier == "thorough"
    c.cov["rule"] = ("MC_KeyCodec: Decode(Encode(x)) = x for all representable toy objects; non-representable secret keys do not survive. "
                     "Trace_Key: per generated key TLC recomputes EncodeSK/EncodePK from the polynomials and compares byte for byte, checks "
                     "lengths, DecodeSK(bytes) = original, Representable, and the code's own from_bytes(to_bytes(x)) == x; light events for "
                     "many seeds (quick 150+20, thorough 1000+200) with coefficient extrema; signatures made with the decoded key are heavy "
                     "verify events under the original public key")
    mc = McOutcome()
    model_check(mc, [dict(module="MC_KeyCodec", cfg="MC_KeyCodec", workers=16)])
    c.add_mc(mc)
    _keys(c, lambda ev, v: ev.get("ev") == "sigrt" or bool(_failed(v) & C05_FACTS),
          12 if thorough else 6, 6 if thorough else 3, 1000 if thorough else 150, 200 if thorough else 20)
    to = validate_traces("Trace_Verify", traces_in(c.work, "verify"), parallel=4)
    c.add_traces(to, keyfn=verify_key, label="verify")
    c.assumptions += ["'for every seed' is sampled (representability failures were ~1.6 per mille of Falcon-512 seeds before fix 95c463b)"]


def _mc_wire(c, thorough):
    mc = McOutcome()
    model_check(mc, [dict(module="MC_FalconWire", cfg="FalconWire" if thorough else "FalconWire_q", workers=16, xmx="8g", timeout=3600),
                     dict(module="MC_FalconWire", cfg="FalconWire_vac", workers=4, expect="violation")])
    c.add_mc(mc)


def c06(c):
    thorough = c.tier == "thorough"
    c.cov["rule"] = ("MC_KeyCodec: Strict (Decode(b) = Ok(x) => Encode(x) = b) over ALL byte strings of the toy format for the three object "
                     "types, wrong lengths and headers rejected. Trace_Decode: real from_bytes on all 256 header bytes x 3 types x 2 variants, "
                     "length classes, other variant's parameters, public-key fields {0,8192,12288,12289,12290,16383} at 4 positions, secret-key "
                     "fields at the reserved pattern and its neighbours, random bodies; accepted strings must re-encode to themselves; native "
                     "bulk fuzz summarised")
    mc = McOutcome()
    model_check(mc, [dict(module="MC_KeyCodec", cfg="MC_KeyCodec", workers=16)])
    c.add_mc(mc)
    _mc_wire(c, thorough)     # system view: exported / tampered / reframed items on the wire, Strict and RoundTrip as invariants
    # C06 is one-directional: what from_bytes ACCEPTS must be canonical (and the listed malformed classes must be rejected).  A decoder
    # that rejects more than the specification's (e.g. an added validity check on secret keys) does not violate it; rejected honest
    # encodings are C05's business.  So: wrong accepts, non-identical re-encodings and rejected honest objects are violations here;
    # other over-strict rejections are notes.
    _decoders(c, 3000000 if thorough else 40000,
              relevant=lambda ev, v: ev.get("res") == "ok" or ev.get("tag") == "honest" or ev.get("noncanonical", 0) > 0 or ev.get("res") == "panic")
    c.assumptions += ["signature body canonicity is decided at verification time (C07/C02); from_bytes checks the framing only, as the property's "
                      "observable 'x.to_bytes() = b' requires"]


def c09(c):
    thorough = c.tier == "thorough"
    c.cov["rule"] = ("Trace_Sampler: BaseSampler on RCDT[i]-1, RCDT[i], RCDT[i]+1 for all 18 thresholds, 0, 2^72-1 and random values (a step "
                     "function is determined by these); ApproxExp exactly (63-bit fixed point on BigNat) on corners and random (x, ccs); BerExp "
                     "exactly for shifts s in {0..65, 200} with byte strings tying on the first k = 0..7 bytes of the threshold; sampler_z as a "
                     "function of (mu, sigma, sigma_min, byte stream) in exact IEEE-754 arithmetic: value of the first accepting iteration and "
                     "number of bytes consumed, for a grid of centres/widths under random, constant, periodic, z0-forcing and all-tie streams; "
                     "Stats: chi-square of 2e5 (5e6) samples per (mu, sigma) pair against the discrete Gaussian. "
                     "distinct_nontrivial = distinct branches (z0 values, shift classes, iteration counts)")
    mc = McOutcome()
    model_check(mc, [dict(module="MC_Sampler", cfg="MC_Sampler", workers=8),
                     dict(module="MC_Sampler", cfg="MC_Sampler_D4", workers=4, expect="violation")])
    c.add_mc(mc)
    drive("c09", ["--tier", c.tier, "--seed", c.seed, "--out", c.work, "--shards", 14])
    to = validate_traces("Trace_Sampler", traces_in(c.work, "sampler"), parallel=PAR, timeout=7200)
    c.add_traces(to, keyfn=generic_key)
    # the sampler as used inside real sign calls (tap events of ffSampling's leaf calls): float glue and verdicts, leaf widths in range
    drive("signsampler", ["--tier", c.tier, "--seed", c.seed, "--out", c.work, "--shards", 14])
    to = validate_traces("Trace_SignSampler", traces_in(c.work, "signsampler"), parallel=PAR, timeout=7200)
    c.add_traces(to, keyfn=generic_key, label="in-sign")
    if thorough:
        # key generation's gen_poly = sums of 4096/n sampler outputs on one stream (2 minutes of TLC per polynomial)
        drive("genpoly", ["--tier", c.tier, "--seed", c.seed, "--out", c.work, "--shards", 6])
        to = validate_traces("Trace_Sampler", traces_in(c.work, "genpoly"), parallel=6, timeout=7200)
        c.add_traces(to, keyfn=generic_key, label="genpoly")
    drive("c09-hist", ["--tier", c.tier, "--seed", c.seed, "--out", c.work, "--samples", 5120000 if thorough else 204800], timeout=7200)
    to = validate_traces("Trace_Stats", traces_in(c.work, "hist"), parallel=1)
    c.add_traces(to, keyfn=generic_key, label="stats")
    c.assumptions += ["floating-point glue is specified in exact binary64 arithmetic in the reference operation order (as the known-answer "
                      "vectors require); a refactoring with another valid evaluation order would differ only inside a 2^-40 band",
                      "the closeness of the sampler's exact output law to the ideal Gaussian (Renyi argument) is not derived; the histogram test "
                      "has the usual power limits", "a stream that never accepts makes the specified algorithm loop too: totality = no panic on any prefix"]


def babai_key(ev, v):
    d = v[4] if len(v) > 4 else []
    failed = sorted(d[0]["#set"]) if d and isinstance(d[0], dict) and "#set" in d[0] else []
    return {"ev": "babai", "n": ev.get("n"), "tag": ev.get("tag"), "failed": failed,
            "input_sha3": runner_sha([abs(int(x)) % 256 for x in (ev.get("f", []) + ev.get("g", []) + ev.get("F", []) + ev.get("G", []))])}


def c17(c):
    thorough = c.tier == "thorough"
    c.cov["rule"] = ("MC_Babai: the residue-based evaluation of the postconditions equals schoolbook arithmetic over Z on a toy ring (multiples and "
                     "non-multiples). Trace_Babai: babai_reduce_i32 and babai_reduce_bigint on the same (f, g, F, G) for every n in {2..1024}, "
                     "(F,G) = (F0,G0) + k (f,g) with |k| from 0 up to what the 2^24 bound allows, zero / extreme / real-key inputs; TLC decides "
                     "agreement, F-F' = k f and G-G' = k g for a reconstructed integer k, invariance of f G - g F, idempotence. Trace_U32: the 30-bit prime field "
                     "of the multi-modular version (operand classes around 2^15, 2^16, 2^30, p/2, p; all 2058 table constants; transforms at every n). "
                     "distinct_nontrivial = distinct (n, family) classes")
    mc = McOutcome()
    model_check(mc, [dict(module="MC_Babai", cfg="MC_Babai", workers=8, timeout=1800)])
    c.add_mc(mc)
    drive("c17", ["--tier", c.tier, "--seed", c.seed, "--out", c.work, "--shards", 14], timeout=3600)
    to = validate_traces("Trace_Babai", traces_in(c.work, "babai"), parallel=PAR, timeout=7200)
    c.add_traces(to, keyfn=babai_key)
    # the multi-modular arithmetic the 32-bit version rests on: a wrong field operation breaks agreement on the inputs that reach it
    drive("u32field", ["--tier", c.tier, "--seed", c.seed, "--out", c.work, "--shards", 14])
    to = validate_traces("Trace_U32", traces_in(c.work, "u32f"), parallel=PAR, sparse=True)
    c.add_traces(to, keyfn=generic_key, label="u32field")
    c.assumptions += ["the reduction's internal floating-point quotient is not specified -- only its postconditions",
                      "when f is not invertible modulo 18433 or 40961 the multiple k is not reconstructed (branch '-kskipped'); the invariant still is"]


def c16(c):
    thorough = c.tier == "thorough"
    c.cov["rule"] = ("three-way exchange with the vendored PQClean build: keys made on either side decoded by the other (and re-encoded "
                     "identically), signatures made on either side -- with keys made on either side -- verified by the other after Reframe "
                     "(header 0x59/0x5a <-> 0x39/0x3a, zero padding stripped / restored); every cross-verdict must be TRUE (Trace_Interop) and "
                     "every exchanged signature is a heavy event re-verified by TLC from its bytes against the TLA+ Verify (Trace_Verify), so "
                     "the reference's signatures also validate the specification. MC: toy-ring Completeness against the specification's "
                     "Verify for every candidate (MC_Falcon algebra) and the encodings (MC_KeyCodec)")
    _mc_falcon(c, ["algebra"], [])
    mc = McOutcome()
    model_check(mc, [dict(module="MC_KeyCodec", cfg="MC_KeyCodec", workers=16)])
    c.add_mc(mc)
    _mc_wire(c, thorough)     # two parties with the two signature conventions and Reframe between them (Interop invariant)
    drive("c16", ["--tier", c.tier, "--seed", c.seed, "--out", c.work, "--shards", 14], timeout=7200)
    to = validate_traces("Trace_Interop", traces_in(c.work, "cross"), parallel=1)
    c.add_traces(to, keyfn=generic_key, label="cross")
    to = validate_traces("Trace_Verify", traces_in(c.work, "verify"), parallel=PAR, timeout=7200)
    c.add_traces(to, keyfn=verify_key, label="verify")
    c.assumptions += ["the reference is the PQClean build vendored in the cargo cache (pqcrypto-falcon 0.3.0); its RNG is its own",
                      "only the 'compressed' signature format of that version is exercised"]


def c13(c):
    thorough = c.tier == "thorough"
    c.cov["rule"] = ("MC_Fft: index algebra of the table characterisation for all j and of the split/merge permutations. Trace_Fft: the 1024 complex "
                     "constants (raw bits) against T[0]=1, T[2j]^2=T[j] (principal root), T[2j+1]=i T[2j] on exact dyadics up to 2^-50 -- these "
                     "determine every entry; for every n in {2..1024} and operand families (dense, all-max, sparse extreme at the full 2^14 x 2^10 "
                     "range, unit, zero) the five compositions product / round trip / merge / split / merge o split against exact integer "
                     "ground truth with the property's 2^-30 ||a|| ||b|| bound (BigNat). distinct_nontrivial = distinct (composition, n, family)")
    mc = McOutcome()
    model_check(mc, [dict(module="MC_Fft", cfg="MC_Fft", workers=8)])
    c.add_mc(mc)
    drive("c13", ["--tier", c.tier, "--seed", c.seed, "--out", c.work, "--shards", 14])
    to = validate_traces("Trace_Fft", traces_in(c.work, "fft"), parallel=PAR, timeout=3600)
    c.add_traces(to, keyfn=generic_key)
    c.assumptions += ["numeric accuracy is where the family is weakest: TLA+ contributes exact ground truth, the exact table characterisation and "
                      "the tolerance formula; rounding behaviour is not re-derived and real (non-dyadic) inputs are represented by integer ones",
                      "operand families are restricted so that exact products fit 31 bits (dense b is scaled down at large n; the full range is "
                      "covered by sparse vectors)"]


def _tla_to_json(v):
    """parsed TLA+ value (runner.parse_value) -> plain JSON (records/tuples); BigNat limbs stay lists"""
    if isinstance(v, dict):
        if "#set" in v:
            return [_tla_to_json(x) for x in v["#set"]]
        if "#fn" in v:
            return {k: _tla_to_json(x) for k, x in v["#fn"].items()}
        return {k: _tla_to_json(x) for k, x in v.items()}
    if isinstance(v, list):
        return [_tla_to_json(x) for x in v]
    return v


def c10(c):
    thorough = c.tier == "thorough"
    c.cov["rule"] = ("MC_Falcon (algebra): the coset / basis identities on the toy ring for every z. Trace_Moments: one key per variant (two in "
                     "thorough), N signatures of distinct messages (quick 154+4 / 84+4, thorough 1512 / 756); per signature TLC recomputes c, s2, "
                     "s1 from the bytes, demands the verification bound and computes exactly ||s||^2 and the projections on all 2n rotations "
                     "of (g,-f) and (G,-F); a second TLC run sums the shards' partial sums and applies the windows: E||s||^2 = 2 n sigma^2, "
                     "E sum_k <s,x^k b>^2 = n sigma^2 ||b||^2, mean zero. distinct_nontrivial = number of moment predicates evaluated")
    _mc_falcon(c, ["algebra"], [])
    # the mechanism behind the distribution: every leaf call of ffSampling inside real sign calls is a conforming SamplerZ call with
    # sigma_min = the parameter, sigma' = the key's leaf in traversal order (two keys alternating), and the leaves multiply to
    # (sigma^2/q)^n (ties the tree to sigma and det B = q exactly)
    drive("signsampler", ["--tier", c.tier, "--seed", c.seed, "--out", c.work, "--shards", 14])
    to = validate_traces("Trace_SignSampler", traces_in(c.work, "signsampler"), parallel=PAR, timeout=7200)
    c.add_traces(to, keyfn=generic_key, label="in-sign")
    n512, n1024, keys = (1512, 756, 2) if thorough else (112, 56, 1)
    drive("c10", ["--tier", c.tier, "--seed", c.seed, "--out", c.work, "--shards", 14, "--n512", n512, "--n1024", n1024, "--keys", keys], timeout=7200)
    files = traces_in(c.work, "mom")
    to = validate_traces("Trace_Moments", files, parallel=PAR, timeout=14400, sparse=True, xmx="4g")
    c.add_traces(to, keyfn=generic_key, label="sig")
    # collect the PARTIAL records printed by the shards and aggregate them in a second TLC run
    parts = []
    jobs = [dict(module="Trace_Moments", env={"TRACE": f}, workers=1, timeout=14400, xmx="4g", name="mom_%d" % i) for i, f in enumerate(files)]
    # (the shard runs above already printed PARTIAL; re-use their outputs instead of re-running)
    for r in getattr(to, "results", []):
        for t in runner.printed_tuples(r.stdout, {"PARTIAL"})[:1]:
            p = _tla_to_json(t[1])
            p["ev"] = "partial"
            p["tag"] = "partial"
            parts.append(p)
    if len(parts) != len([f for f in files if os.path.getsize(f) > 0]):
        raise runner.ToolError("missing PARTIAL output from %d shard(s)" % (len(files) - len(parts)))
    agg = os.path.join(c.work, "agg.0.ndjson")
    with open(agg, "w") as f:
        for p in parts:
            f.write(json.dumps(p) + "\n")
    to2 = validate_traces("Trace_Moments", [agg], parallel=1, sparse=True, xmx="4g")
    c.add_traces(to2, keyfn=system_key, label="moments")
    c.assumptions += ["three aggregated families of directions (the 2n basis-row rotations exactly, the overall norm), not each Gram-Schmidt "
                      "direction separately: a leak confined to deep tree levels that preserves all aggregates is not seen",
                      "windows are 6.5 standard deviations of the estimators (false alarm < 1e-9)", "the analytic sphericity argument is not derived"]


def growth(c):
    """Not a listed property: specification growth (DESIGN.md section 10).  ./check growth"""
    c.cov["rule"] = "NTRUSolve at every level of the field-norm tower (Trace_Solve); gen_poly (Trace_Sampler genpoly events)"
    drive("solve", ["--tier", c.tier, "--seed", c.seed, "--out", c.work, "--shards", 12])
    to = validate_traces("Trace_Solve", traces_in(c.work, "solve"), parallel=PAR, timeout=7200)
    c.add_traces(to, keyfn=generic_key, label="solve")


# ------------------------------------------------------------------ binding self-tests (DESIGN.md section 9)

def _selftest(c, module, trace_file, mutate, expect_index, label, sparse=False):
    """Corrupt one recorded field of one event (or duplicate / drop an event) and demand that TLC rejects the trace at
    exactly that event.  A self-test that does not reject is a tool error: the trace spec would not be binding."""
    evs = runner.read_ndjson(trace_file)
    evs2, idx = mutate(evs)
    d = runner.fresh_dir(os.path.join(c.work, "selftest"))
    t = os.path.join(d, "selftest.ndjson")
    with open(t, "w") as f:
        for e in evs2:
            f.write(json.dumps(e) + "\n")
    to = validate_traces(module, [t], parallel=1, sparse=sparse)
    got = sorted({m[1] for m in to.mismatches})
    names = [m[2].get("name") for m in to.mismatches if m[2].get("ev") == "history"]
    ok = (idx in got) if expect_index else bool(to.mismatches)
    c.cov.setdefault("binding_selftests", []).append({"trace_spec": module, "corruption": label, "rejected_at": got, "history": names, "ok": ok})
    log("[selftest] %s / %s: %s (rejected at %s %s)" % (module, label, "ok" if ok else "NOT REJECTED", got, names))
    if not ok:
        raise runner.ToolError("binding self-test failed: %s accepted a corrupted trace (%s)" % (module, label))
    # the corrupted trace's states do not count as coverage of the real code
    return ok


def _first(evs, pred):
    for i, e in enumerate(evs):
        if pred(e):
            return i
    raise runner.ToolError("self-test: no suitable event in the trace")


def selftests(c):
    """./check selftest : run the binding self-tests on freshly recorded traces (also part of some thorough tiers)."""
    work = c.work
    drive("c02", ["--tier", "quick", "--seed", c.seed, "--out", work, "--shards", 2])
    t = traces_in(work, "verify")[0]

    def flip_res(evs):
        i = _first(evs, lambda e: e.get("res") == "true")
        evs = [dict(e) for e in evs[: i + 1]]
        evs[i]["res"] = "false"
        return evs, i + 1
    _selftest(c, "Trace_Verify", t, flip_res, True, "verdict of an accepted signature flipped")

    def flip_sig_bit(evs):
        i = _first(evs, lambda e: e.get("res") == "true")
        evs = [dict(e) for e in evs[: i + 1]]
        s = list(evs[i]["sig"]); s[100] ^= 4; evs[i]["sig"] = s
        return evs, i + 1
    _selftest(c, "Trace_Verify", t, flip_sig_bit, True, "one bit of a recorded signature flipped (recorded verdict kept)")
    drive("c07", ["--tier", "quick", "--seed", c.seed, "--out", work, "--shards", 2, "--bulk", 100])
    t = traces_in(work, "codec")[0]

    def bump_coeff(evs):
        i = _first(evs, lambda e: e.get("ev") == "decompress" and e.get("res") == "some")
        evs = [dict(e) for e in evs[: i + 1]]
        v = list(evs[i]["v"]); v[len(v) // 2] += 1; evs[i]["v"] = v
        return evs, i + 1
    _selftest(c, "Trace_Codec", t, bump_coeff, True, "one decompressed coefficient off by one")
    drive("c09", ["--tier", "quick", "--seed", c.seed, "--out", work, "--shards", 8])
    t = traces_in(work, "sampler")[0]

    def bump_sample(evs):
        i = _first(evs, lambda e: e.get("ev") == "samplerz" and not e.get("exhausted"))
        evs = [dict(e) for e in evs[: i + 1]]
        evs[i]["res"] += 1
        return evs, i + 1
    _selftest(c, "Trace_Sampler", t, bump_sample, True, "sampler_z result off by one")
    drive("c08", ["--tier", "quick", "--seed", c.seed, "--out", work, "--per", 20])
    t = traces_in(work, "system")[0]

    def dup_salt(evs):
        evs = [dict(e) for e in evs[:400]]
        evs[300]["salt"] = evs[7]["salt"]
        return evs, 0
    _selftest(c, "Trace_System", t, dup_salt, False, "one salt replaced by an earlier one", sparse=True)
    drive("c12", ["--tier", "quick", "--seed", c.seed, "--out", work, "--shards", 8])
    t = traces_in(work, "felt")[1]

    def bump_row(evs):
        i = _first(evs, lambda e: e.get("ev") == "row")
        evs = [dict(e) for e in evs[: i + 1]]
        evs[i]["sum"] = (evs[i]["sum"] + 1) % 1000003
        return evs, i + 1
    _selftest(c, "Trace_Felt", t, bump_row, True, "row digest of a field operation off by one")
    c.cov["rule"] = "binding self-tests: each trace specification must reject a trace with one corrupted field at exactly that event"
    c.cov["evaluations"] = max(c.cov["evaluations"], len(c.cov.get("binding_selftests", [])))
