"""Runner library: builds the harness, runs drivers and TLC, parses TLC output, writes evidence.

Python orchestrates only.  Every verdict is a TLC verdict on the TLA+ specification.
Exit codes: 0 property held on everything explored; 1 violation (with VIOLATION line and replay file);
2 tool error (cargo, TLC, timeout, unparsable output) -- never reported as a violation or a pass.
"""
import concurrent.futures
import json
import os
import re
import shutil
import subprocess
import sys
import time

VERIF = os.path.dirname(os.path.dirname(os.path.abspath(__file__)))
SPEC = os.path.join(VERIF, "spec")
HARNESS = os.path.join(VERIF, "harness")
WORK = os.environ.get("VERIF_WORK") or os.path.join(VERIF, "work")   # VERIF_WORK: author's background sweeps use a separate scratch directory
EVID = os.environ.get("VERIF_EVIDENCE_DIR") or os.path.join(VERIF, "evidence")
REPLAYS = os.path.join(VERIF, "replays")
JAVA_CP = "/opt/veriftools/tla/tla2tools.jar:/opt/veriftools/tla/CommunityModules-deps.jar"


KEYS_NOT_SYNC = False


class ToolError(Exception):
    pass


def log(*a):
    print(*a, flush=True)


# ------------------------------------------------------------------ cargo / drivers

def _alt_harness():
    """For the author's own background experiments only (vp run --with-repo): VERIF_REPO=<dir> builds a copy of the harness
    against a snapshot of the repository instead of /repo.  Registered checks never set it."""
    global HARNESS
    alt = os.environ.get("VERIF_REPO")
    if not alt:
        return
    dst = os.path.join(WORK, "harness_alt")
    shutil.rmtree(os.path.join(dst, "src"), ignore_errors=True)
    os.makedirs(dst, exist_ok=True)
    shutil.copytree(os.path.join(HARNESS, "src"), os.path.join(dst, "src"))
    shutil.copytree(os.path.join(HARNESS, ".cargo"), os.path.join(dst, ".cargo"), dirs_exist_ok=True)
    shutil.copy(os.path.join(HARNESS, "Cargo.lock"), dst)
    toml = open(os.path.join(HARNESS, "Cargo.toml")).read().replace('/repo/falcon-rust', os.path.join(alt, "falcon-rust"))
    open(os.path.join(dst, "Cargo.toml"), "w").write(toml)
    HARNESS = dst


def build_harness():
    """Rebuild the harness against /repo's current working tree (hooks on)."""
    _alt_harness()
    env = dict(os.environ, CARGO_NET_OFFLINE="true")
    t0 = time.time()
    global KEYS_NOT_SYNC
    p = subprocess.run(["cargo", "build", "--release", "--offline"], cwd=HARNESS, env=env,
                       stdout=subprocess.PIPE, stderr=subprocess.STDOUT, text=True)
    if p.returncode != 0 and ("cannot be shared between threads safely" in p.stdout or "`Sync` is not" in p.stdout):
        # the library's key types are no longer Sync: rebuild with one clone per thread and let the C01 check say so
        log("[build] the library's key/signature types are not Sync; rebuilding the harness without shared key objects")
        p = subprocess.run(["cargo", "build", "--release", "--offline", "--no-default-features"], cwd=HARNESS, env=env,
                           stdout=subprocess.PIPE, stderr=subprocess.STDOUT, text=True)
        KEYS_NOT_SYNC = p.returncode == 0
    if p.returncode != 0:
        log(p.stdout[-4000:])
        raise ToolError("cargo build of the harness failed")
    log("[build] harness built in %.1fs" % (time.time() - t0))


def drive(what, args, timeout=3600, env=None):
    cmd = [os.path.join(HARNESS, "target/release/drive"), what] + [str(a) for a in args]
    e = dict(os.environ)
    if env:
        e.update(env)
    t0 = time.time()
    try:
        p = subprocess.run(cmd, cwd=VERIF, stdout=subprocess.PIPE, stderr=subprocess.PIPE, text=True,
                           timeout=timeout, env=e)
    except subprocess.TimeoutExpired:
        raise ToolError("driver %s timed out" % what)
    if p.returncode != 0:
        log(p.stdout[-2000:])
        log(p.stderr[-4000:])
        raise ToolError("driver %s exited with %d" % (what, p.returncode))
    log("[drive] %s %s (%.1fs) %s" % (what, " ".join(str(a) for a in args), time.time() - t0,
                                      p.stdout.strip().replace("\n", "; ")[:300]))
    return p.stdout


def fresh_dir(path):
    shutil.rmtree(path, ignore_errors=True)
    os.makedirs(path, exist_ok=True)
    return path


# ------------------------------------------------------------------ TLA+ value parser

_tok = re.compile(r'\s*(<<|>>|\|->|:>|@@|[\[\]\{\}\(\),]|"(?:[^"\\]|\\.)*"|-?\d+|[A-Za-z_][A-Za-z0-9_]*)')


def _tokens(s):
    pos = 0
    out = []
    while pos < len(s):
        m = _tok.match(s, pos)
        if not m:
            if s[pos:].strip() == "":
                break
            raise ValueError("cannot tokenize at %r" % s[pos:pos + 40])
        out.append(m.group(1))
        pos = m.end()
    return out


def _parse(toks, i):
    t = toks[i]
    if t == "<<":
        i += 1
        items = []
        while toks[i] != ">>":
            v, i = _parse(toks, i)
            items.append(v)
            if toks[i] == ",":
                i += 1
        return items, i + 1
    if t == "{":
        i += 1
        items = []
        while toks[i] != "}":
            v, i = _parse(toks, i)
            items.append(v)
            if toks[i] == ",":
                i += 1
        return {"#set": items}, i + 1
    if t == "[":
        i += 1
        rec = {}
        while toks[i] != "]":
            k = toks[i]
            assert toks[i + 1] == "|->", toks[i:i + 3]
            v, i = _parse(toks, i + 2)
            rec[k] = v
            if toks[i] == ",":
                i += 1
        return rec, i + 1
    if t == "(":
        # function printed as (a :> b @@ c :> d)
        i += 1
        fn = {}
        while toks[i] != ")":
            k, i = _parse(toks, i)
            assert toks[i] == ":>"
            v, i = _parse(toks, i + 1)
            fn[json.dumps(k)] = v
            if toks[i] == "@@":
                i += 1
        return {"#fn": fn}, i + 1
    if t.startswith('"'):
        return bytes(t[1:-1], "utf-8").decode("unicode_escape"), i + 1
    if t == "TRUE":
        return True, i + 1
    if t == "FALSE":
        return False, i + 1
    if re.fullmatch(r"-?\d+", t):
        return int(t), i + 1
    return t, i + 1


def parse_value(s):
    toks = _tokens(s)
    v, i = _parse(toks, 0)
    return v


def printed_tuples(stdout, heads):
    """All top-level tuples printed by PrintT whose first element is one of `heads` (strings)."""
    out = []
    lines = stdout.split("\n")
    i = 0
    while i < len(lines):
        ln = lines[i]
        if ln.startswith("<<"):
            # accumulate until brackets balance
            buf = ln
            depth = ln.count("<<") - ln.count(">>")
            j = i
            while depth > 0 and j + 1 < len(lines):
                j += 1
                buf += " " + lines[j]
                depth += lines[j].count("<<") - lines[j].count(">>")
            i = j
            m = re.match(r'<<\s*"([A-Za-z0-9_-]+)"', buf)
            if m and m.group(1) in heads:
                try:
                    out.append(parse_value(buf))
                except Exception as ex:  # unparsable output is a tool error, not a verdict
                    raise ToolError("cannot parse TLC output %r: %s" % (buf[:200], ex))
        i += 1
    return out


# ------------------------------------------------------------------ TLC

class TlcResult:
    def __init__(self, name, stdout, rc, wall):
        self.name = name
        self.stdout = stdout
        self.rc = rc
        self.wall = wall
        m = re.search(r"(\d+) states generated, (\d+) distinct states found", stdout)
        self.generated = int(m.group(1)) if m else 0
        self.distinct = int(m.group(2)) if m else 0
        self.finished_ok = "Model checking completed. No error has been found." in stdout
        self.invariant_violated = re.search(r"Error: Invariant (\S+) is violated", stdout)
        self.assume_failed = "Assumption" in stdout and "is false" in stdout
        self.errors = [l for l in stdout.split("\n") if l.startswith("Error:")]


def tlc(module, cfg=None, env=None, workers=1, timeout=3600, xmx="4g", extra=None, name=None):
    """Run TLC on spec/<module>.tla. Returns TlcResult; raises ToolError on timeout / crash."""
    name = name or module
    meta = os.path.join(WORK, "tlc", name.replace("/", "_") + "_%d" % os.getpid())
    shutil.rmtree(meta, ignore_errors=True)
    cfgp = os.path.join(SPEC, (cfg or module) + ".cfg")
    cmd = ["java", "-Xss512m", "-Xmx" + xmx, "-XX:+UseParallelGC", "-cp", JAVA_CP, "tlc2.TLC",
           "-workers", str(workers), "-metadir", meta, "-cleanup", "-noGenerateSpecTE", "-config", cfgp]
    cmd += (extra or [])
    cmd += [os.path.join(SPEC, module + ".tla")]
    e = dict(os.environ)
    if env:
        e.update({k: str(v) for k, v in env.items()})
    t0 = time.time()
    try:
        p = subprocess.run(cmd, cwd=SPEC, stdout=subprocess.PIPE, stderr=subprocess.STDOUT, text=True,
                           timeout=timeout, env=e)
    except subprocess.TimeoutExpired:
        raise ToolError("TLC timed out on %s" % name)
    finally:
        shutil.rmtree(meta, ignore_errors=True)
    r = TlcResult(name, p.stdout, p.returncode, time.time() - t0)
    # TLC failures that are not verdicts: parse errors, overflow, evaluation errors
    fatal = [x for x in r.errors if ("Overflow" in x or "Parsing or semantic analysis failed" in x
                                     or "evaluating" in x and "nested" in x)]
    if "Parsing or semantic analysis failed" in p.stdout or "Overflow when computing" in p.stdout \
            or "java.lang." in p.stdout and "Exception" in p.stdout or "StackOverflowError" in p.stdout:
        log(p.stdout[-3000:])
        raise ToolError("TLC failed on %s: %s" % (name, fatal[:1] or "evaluation error"))
    return r


def tlc_many(jobs, parallel=8):
    """jobs: list of dicts of tlc() kwargs. Runs up to `parallel` single-worker TLC processes."""
    results = [None] * len(jobs)
    with concurrent.futures.ThreadPoolExecutor(max_workers=parallel) as ex:
        futs = {ex.submit(tlc, **j): i for i, j in enumerate(jobs)}
        for f in concurrent.futures.as_completed(futs):
            results[futs[f]] = f.result()
    return results


# ------------------------------------------------------------------ trace validation

def read_ndjson(path):
    with open(path) as f:
        return [json.loads(l) for l in f if l.strip()]


class TraceOutcome:
    def __init__(self):
        self.traces = 0
        self.events = 0
        self.states = 0
        self.transitions = 0
        self.mismatches = []   # (trace_path, index(1-based), event, verdict_tuple)
        self.branches = {}
        self.samples = []
        self.wall = 0.0


def validate_traces(module, trace_files, parallel=8, timeout=3600, branch_pos=3, cfg=None, xmx="3g",
                    extra_env=None, sparse=False):
    """Validate each trace file against spec/<module>.tla (one TLC process per file).
    The trace specs print one <<"VERDICT", l, "ok"|"MISMATCH", ...>> per event and a final <<"DONE", n, bad>>.
    A trace whose DONE line is missing or whose count differs is a tool error."""
    out = TraceOutcome()
    out.module = module
    trace_files = [t for t in trace_files if os.path.getsize(t) > 0]
    jobs = []
    for i, t in enumerate(trace_files):
        env = {"TRACE": t}
        if extra_env:
            env.update(extra_env)
        jobs.append(dict(module=module, cfg=cfg, env=env, workers=1,
                         timeout=timeout, xmx=xmx, name="%s_%d" % (module, i)))
    t0 = time.time()
    results = tlc_many(jobs, parallel)
    out.results = results
    out.wall = time.time() - t0
    for t, r in zip(trace_files, results):
        events = read_ndjson(t)
        verdicts = printed_tuples(r.stdout, {"VERDICT"})
        done = printed_tuples(r.stdout, {"DONE"})
        history = printed_tuples(r.stdout, {"HISTORY"})
        if not done or done[-1][1] != len(events) or (not sparse and len(verdicts) < len(events)):
            log(r.stdout[-3000:])
            raise ToolError("trace %s: TLC consumed %d of %d events (spec stuck or crashed)" %
                            (t, len(verdicts), len(events)))
        if not r.finished_ok:
            log(r.stdout[-3000:])
            raise ToolError("trace %s: TLC did not complete cleanly" % t)
        out.traces += 1
        out.events += len(events)
        out.states += r.distinct
        out.transitions += r.generated
        seen = set()
        for v in verdicts:
            idx = v[1]
            if idx in seen:
                continue
            seen.add(idx)
            if branch_pos is not None and len(v) > branch_pos:
                b = str(v[branch_pos])
                out.branches[b] = out.branches.get(b, 0) + 1
            if v[2] != "ok":
                out.mismatches.append((t, idx, events[idx - 1], v))
        hseen = set()
        for h in history:
            if h[1] in hseen:
                continue
            hseen.add(h[1])
            b = "history:" + str(h[3])
            out.branches[b] = out.branches.get(b, 0) + 1
            if h[2] != "ok":
                out.mismatches.append((t, 0, {"ev": "history", "name": h[3], "detail": h[4], "trace_file": t}, h))
        if len(out.samples) < 3 and events:
            out.samples.append({"trace": os.path.basename(t), "event": shrink(events[0]),
                                "tlc_verdict": verdicts[0] if verdicts else (history[0] if history else None)})
    log("[tlc] %s: %d traces, %d events, %d mismatches, %.1fs" %
        (module, out.traces, out.events, len(out.mismatches), out.wall))
    return out


def shrink(o, maxlen=24):
    """Abbreviate long arrays for evidence samples."""
    if isinstance(o, list):
        if len(o) > maxlen:
            return [shrink(x) for x in o[:maxlen]] + ["... (%d items)" % len(o)]
        return [shrink(x) for x in o]
    if isinstance(o, dict):
        return {k: shrink(v) for k, v in o.items()}
    return o


# ------------------------------------------------------------------ model checking runs

class McOutcome:
    def __init__(self):
        self.runs = []
        self.states = 0
        self.transitions = 0
        self.failed = []   # (name, message, stdout tail)


def model_check(mc, runs, parallel=1):
    """runs: list of dict(module=, cfg=, workers=, expect='pass'|'violation', env=..).  Accumulates into mc.
    parallel > 1: the TLC processes run concurrently (use a small `workers` each)."""
    expects = [j.pop("expect", "pass") for j in runs]
    if parallel > 1:
        results = tlc_many(runs, parallel)
    else:
        results = [tlc(**j) for j in runs]
    for j, expect, r in zip(runs, expects, results):
        mc.states += r.distinct
        mc.transitions += r.generated
        ok = r.finished_ok
        viol = bool(r.invariant_violated) or "is violated" in r.stdout or r.assume_failed or \
            "Temporal properties were violated" in r.stdout
        mc.runs.append({"spec": j.get("module"), "cfg": j.get("cfg") or j.get("module"), "distinct_states": r.distinct,
                        "states_generated": r.generated, "wall_s": round(r.wall, 1), "expect": expect,
                        "result": "pass" if ok else ("violation" if viol else "error")})
        log("[tlc] MC %s/%s: %d distinct states, %s (%.1fs)" %
            (j.get("module"), j.get("cfg") or "", r.distinct, mc.runs[-1]["result"], r.wall))
        if expect == "pass" and not ok:
            if viol:
                mc.failed.append((r.name, "specification-level theorem violated", r.stdout[-3000:]))
            else:
                log(r.stdout[-3000:])
                raise ToolError("TLC error in %s" % r.name)
        if expect == "violation" and not viol:
            log(r.stdout[-2000:])
            raise ToolError("broken-model config %s did not produce a counterexample (vacuity guard)" % r.name)
    return mc


def apalache(mc, spec_dir, module, steps, timeout=1200):
    """Apalache (symbolic) runs for an inductive-invariant argument. steps: list of (label, args)."""
    import tempfile
    for label, args in steps:
        out = tempfile.mkdtemp(prefix="apalache_", dir=WORK)
        cmd = ["apalache-mc", "check", "--out-dir=" + out] + args + [module]
        t0 = time.time()
        try:
            p = subprocess.run(cmd, cwd=spec_dir, stdout=subprocess.PIPE, stderr=subprocess.STDOUT, text=True, timeout=timeout)
        except subprocess.TimeoutExpired:
            shutil.rmtree(out, ignore_errors=True)
            raise ToolError("apalache timed out on %s" % label)
        shutil.rmtree(out, ignore_errors=True)
        ok = "EXITCODE: OK" in p.stdout
        viol = "The outcome is: Error" in p.stdout or "violat" in p.stdout.lower()
        mc.runs.append({"spec": module, "cfg": "apalache " + label, "distinct_states": 0, "states_generated": 0,
                        "wall_s": round(time.time() - t0, 1), "expect": "pass", "result": "pass" if ok else ("violation" if viol else "error")})
        log("[apalache] %s %s: %s (%.1fs)" % (module, label, mc.runs[-1]["result"], time.time() - t0))
        if not ok:
            if viol:
                mc.failed.append((module + ":" + label, "inductive-invariant obligation refuted by Apalache", p.stdout[-3000:]))
            else:
                log(p.stdout[-2000:])
                raise ToolError("apalache failed on %s" % label)
    return mc


# ------------------------------------------------------------------ findings, evidence, verdict

def load_known():
    p = os.path.join(VERIF, "KNOWN_FINDINGS.json")
    if not os.path.exists(p):
        return []
    return json.load(open(p)).get("findings", [])


def is_known(prop, key):
    """key: dict describing the failing input. A finding matches if all its `match` items equal the key's."""
    for f in load_known():
        if f.get("property") != prop:
            continue
        m = f.get("match", {})
        if m and all(key.get(k) == v for k, v in m.items()):
            return f
    return None


class Check:
    def __init__(self, prop, tier, seed):
        self.prop = prop
        self.tier = tier
        self.seed = seed
        self.t0 = time.time()
        self.violations = []   # (key dict, replay payload)
        self.notes = []        # non-conforming events that concern another property
        self.known = []
        self.cov = {"states": 0, "transitions": 0, "traces_validated_against_impl": 0, "samples": [],
                    "evaluations": 0, "distinct_nontrivial": 0, "rule": "", "mc_runs": [], "branches": {}}
        self.assumptions = []
        self.work = fresh_dir(os.path.join(WORK, prop))

    def add_mc(self, mc):
        self.cov["states"] += mc.states
        self.cov["transitions"] += mc.transitions
        self.cov["mc_runs"] += mc.runs
        for name, msg, tail in mc.failed:
            self.violation({"kind": "model", "spec": name}, {"message": msg, "tlc_output_tail": tail})

    def add_traces(self, to, keyfn=None, label=None, relevant=None):
        """relevant(ev, verdict) -> bool: which non-conforming events are violations of THIS property (others are
        logged as notes: they belong to another property's check)."""
        self.cov["states"] += to.states
        self.cov["transitions"] += to.transitions
        self.cov["traces_validated_against_impl"] += to.traces
        self.cov["evaluations"] += to.events
        for b, c in to.branches.items():
            k = (label + ":" if label else "") + b
            self.cov["branches"][k] = self.cov["branches"].get(k, 0) + c
        for s in to.samples:
            if len(self.cov["samples"]) < 6:
                self.cov["samples"].append(s)
        for (t, idx, ev, v) in to.mismatches:
            key = keyfn(ev, v) if keyfn else {"tag": ev.get("tag", ""), "ev": ev.get("ev", "")}
            if relevant is not None and not relevant(ev, v):
                self.notes.append(key)
                continue
            self.violation(key, {"trace": t, "index": idx, "event": ev, "tlc_verdict": v, "module": to.module})

    def violation(self, key, payload):
        f = is_known(self.prop, key)
        if f:
            self.known.append((f, key))
        else:
            self.violations.append((key, payload))

    def finish(self):
        wall = time.time() - self.t0
        os.makedirs(EVID, exist_ok=True)
        for f, key in self.known:
            log("KNOWN-FINDING: property=%s %s" % (self.prop, f.get("what", json.dumps(key))))
        replay_paths = []
        if self.violations:
            d = os.path.join(REPLAYS, self.prop)
            os.makedirs(d, exist_ok=True)
            for i, (key, payload) in enumerate(self.violations[:20]):
                p = os.path.join(d, "%s_%d.json" % (self.tier, i))
                json.dump({"property": self.prop, "key": key, "payload": payload}, open(p, "w"))
                replay_paths.append(p)
        cov = dict(self.cov)
        cov["distinct_nontrivial"] = max(cov["distinct_nontrivial"], len(cov["branches"]))
        if not cov["samples"]:
            cov["samples"] = [{"note": "no trace samples in this run", "mc_runs": cov["mc_runs"][:2]}]
        ev = {"property_id": self.prop, "tier": self.tier, "seed": self.seed, "level": "model_checking",
              "coverage": cov, "assumptions": self.assumptions, "wall_s": round(wall, 1),
              "violations": len(self.violations), "known_findings": len(self.known)}
        json.dump(ev, open(os.path.join(EVID, self.prop + ".json"), "w"), indent=1)
        if self.notes:
            log("[note] %d non-conforming event(s) outside this property's scope (see that property's check), e.g. %s" %
                (len(self.notes), json.dumps(self.notes[0])[:200]))
        if self.violations:
            for p in replay_paths:
                log("VIOLATION property=%s replay=%s" % (self.prop, p))
            for key, _ in self.violations[:10]:
                log("  failing input: %s" % json.dumps(key)[:300])
            return 1
        log("[ok] %s %s: held on everything explored (%.0fs; %d states, %d traces, %d events)" %
            (self.prop, self.tier, wall, cov["states"], cov["traces_validated_against_impl"], cov["evaluations"]))
        return 0


def ncpu():
    return os.cpu_count() or 4
