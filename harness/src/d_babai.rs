//! C17: the two public (doc-hidden) Babai reductions on the same inputs.
use crate::common::*;
use crate::variant::*;
use falcon_rust::math::{babai_reduce_bigint, babai_reduce_i32};
use falcon_rust::polynomial::Polynomial;
use num::{BigInt, ToPrimitive};
use rand::Rng;
use serde_json::{json, Value};
use std::path::PathBuf;

fn negacyclic_mul(a: &[i64], b: &[i64]) -> Vec<i64> {
    let n = a.len();
    let mut c = vec![0i64; n];
    for i in 0..n {
        for j in 0..n {
            let k = i + j;
            if k < n {
                c[k] += a[i] * b[j];
            } else {
                c[k - n] -= a[i] * b[j];
            }
        }
    }
    c
}

struct Red {
    ok: bool,
    panic: bool,
    f: Vec<i64>,
    g: Vec<i64>,
}
fn red_json(r: &Red) -> Value {
    json!({"ok":r.ok,"panic":r.panic,"F":r.f,"G":r.g})
}

fn run_i32(f: &[i64], g: &[i64], cf: &[i64], cg: &[i64]) -> Red {
    let fp = Polynomial::new(f.iter().map(|&x| x as i32).collect::<Vec<_>>());
    let gp = Polynomial::new(g.iter().map(|&x| x as i32).collect::<Vec<_>>());
    let mut a = Polynomial::new(cf.iter().map(|&x| x as i32).collect::<Vec<_>>());
    let mut b = Polynomial::new(cg.iter().map(|&x| x as i32).collect::<Vec<_>>());
    match guarded(|| {
        let r = babai_reduce_i32(&fp, &gp, &mut a, &mut b);
        (r.is_ok(), a.coefficients.clone(), b.coefficients.clone())
    }) {
        Outcome::Ret((ok, a, b)) => Red { ok, panic: false, f: a.iter().map(|&x| x as i64).collect(), g: b.iter().map(|&x| x as i64).collect() },
        Outcome::Panic(_) => Red { ok: false, panic: true, f: vec![], g: vec![] },
    }
}
fn run_big(f: &[i64], g: &[i64], cf: &[i64], cg: &[i64]) -> Red {
    let fp = Polynomial::new(f.iter().map(|&x| BigInt::from(x)).collect::<Vec<_>>());
    let gp = Polynomial::new(g.iter().map(|&x| BigInt::from(x)).collect::<Vec<_>>());
    let mut a = Polynomial::new(cf.iter().map(|&x| BigInt::from(x)).collect::<Vec<_>>());
    let mut b = Polynomial::new(cg.iter().map(|&x| BigInt::from(x)).collect::<Vec<_>>());
    match guarded(|| {
        let r = babai_reduce_bigint(&fp, &gp, &mut a, &mut b);
        (r.is_ok(), a.coefficients.clone(), b.coefficients.clone())
    }) {
        Outcome::Ret((ok, a, b)) => {
            // coefficients beyond i32 are recorded saturated (they never conform)
            let cv = |v: &Vec<BigInt>| v.iter().map(|x| x.to_i64().unwrap_or(i64::MAX).clamp(-2000000000, 2000000000)).collect::<Vec<i64>>();
            Red { ok, panic: false, f: cv(&a), g: cv(&b) }
        }
        Outcome::Panic(_) => Red { ok: false, panic: true, f: vec![], g: vec![] },
    }
}

fn babai_event(f: &[i64], g: &[i64], cf: &[i64], cg: &[i64], tag: &str) -> Value {
    let a = run_i32(f, g, cf, cg);
    let b = run_big(f, g, cf, cg);
    // second application on the first output of each
    let a2 = if a.ok { run_i32(f, g, &a.f, &a.g) } else { Red { ok: false, panic: false, f: vec![], g: vec![] } };
    let b2 = if b.ok { run_big(f, g, &b.f, &b.g) } else { Red { ok: false, panic: false, f: vec![], g: vec![] } };
    json!({"ev":"babai","n":f.len(),"f":f,"g":g,"F":cf,"G":cg,"i32":red_json(&a),"big":red_json(&b),
           "i32_second":red_json(&a2),"big_second":red_json(&b2),"tag":tag})
}

fn small_vec(rng: &mut impl Rng, n: usize, sigma: f64) -> Vec<i64> {
    (0..n)
        .map(|_| {
            let u1: f64 = rng.gen::<f64>().max(1e-12);
            let u2: f64 = rng.gen();
            ((-2.0 * u1.ln()).sqrt() * (2.0 * std::f64::consts::PI * u2).cos() * sigma).round() as i64
        })
        .collect()
}

pub fn c17(args: &Args) {
    let seed = args.num("--seed", 1);
    let thorough = args.thorough();
    let dir = PathBuf::from(args.get_or("--out", "work/c17"));
    let mut out = Shards::create(&dir, "babai", args.num("--shards", 12) as usize);
    let mut rng = rng_for(seed, "c17");
    let lim: i64 = (1 << 24) - 1;
    let reps = if thorough { 80 } else { 2 };
    for w in 1..=10usize {
        let n = 1usize << w;
        let sigma = 1.17 * (12289.0 / (2.0 * n as f64)).sqrt();
        for rep in 0..reps {
            let f = small_vec(&mut rng, n, sigma);
            let g = small_vec(&mut rng, n, sigma);
            if f.iter().all(|&x| x == 0) && g.iter().all(|&x| x == 0) {
                continue;
            }
            // a reduced starting point: small random (F0, G0); then add k*(f,g) with k as large as the 2^24 bound allows
            let f0 = small_vec(&mut rng, n, sigma * 2.0);
            let g0 = small_vec(&mut rng, n, sigma * 2.0);
            let fmax = f.iter().chain(g.iter()).map(|x| x.abs()).max().unwrap().max(1);
            for &kmag in &[0i64, 1, 50, 5000, (lim / (fmax * n as i64 * 2)).max(1)] {
                if !thorough && rep > 0 && kmag != 0 && kmag < 5000 {
                    continue;
                }
                let k: Vec<i64> = (0..n).map(|_| if kmag == 0 { 0 } else { rng.gen_range(-kmag..=kmag) }).collect();
                let kf = negacyclic_mul(&k, &f);
                let kg = negacyclic_mul(&k, &g);
                let cf: Vec<i64> = (0..n).map(|i| f0[i] + kf[i]).collect();
                let cg: Vec<i64> = (0..n).map(|i| g0[i] + kg[i]).collect();
                if cf.iter().chain(cg.iter()).any(|x| x.abs() > lim) {
                    continue;
                }
                out.emit(babai_event(&f, &g, &cf, &cg, &format!("k{}", if kmag == 0 { 0 } else if kmag < 5000 { 1 } else { 2 })));
            }
        }
    }
    // the same small (f, g) zero-padded into rings of different degree, in consecutive calls, growing and shrinking (state keyed by
    // the polynomials but not by the ring degree would answer for the wrong ring)
    {
        let f0 = vec![5i64, -3, 0, 2];
        let g0 = vec![2i64, 7, -1, 0];
        for &n in &[4usize, 8, 4, 16, 8, 64, 4] {
            let mut f = f0.clone();
            f.resize(n, 0);
            let mut g = g0.clone();
            g.resize(n, 0);
            let k: Vec<i64> = (0..n).map(|_| rng.gen_range(-40000..=40000)).collect();
            let f00 = small_vec(&mut rng, n, 6.0);
            let g00 = small_vec(&mut rng, n, 6.0);
            let kf = negacyclic_mul(&k, &f);
            let kg = negacyclic_mul(&k, &g);
            let cf: Vec<i64> = (0..n).map(|i| f00[i] + kf[i]).collect();
            let cg: Vec<i64> = (0..n).map(|i| g00[i] + kg[i]).collect();
            if cf.iter().chain(cg.iter()).all(|x| x.abs() <= lim) {
                out.emit(babai_event(&f, &g, &cf, &cg, "padded-basis-sequence"));
            }
        }
    }
    // (F, G) NOT larger than (f, g) yet not reduced: scaled-down, clamped, thinned and negated copies of (f, g) -- the rounded
    // quotient is a non-zero constant although the largest coefficient of (F, G) has no more bits than that of (f, g)
    for &n in &[2usize, 4, 16, 64, 512, 1024] {
        if !thorough && (n == 16 || n == 1024) {
            continue;
        }
        let sigma = (1.17 * (12289.0 / (2.0 * n as f64)).sqrt()).max(4.0);
        let f = small_vec(&mut rng, n, sigma);
        let g = small_vec(&mut rng, n, sigma);
        if f.iter().all(|&x| x == 0) && g.iter().all(|&x| x == 0) {
            continue;
        }
        let fmax = f.iter().chain(g.iter()).map(|x| x.abs()).max().unwrap().max(2);
        let clamp = |v: &Vec<i64>, m: i64| v.iter().map(|&x| x.clamp(-m, m)).collect::<Vec<i64>>();
        let scale = |v: &Vec<i64>, num: i64, den: i64| v.iter().map(|&x| (x * num).div_euclid(den)).collect::<Vec<i64>>();
        let thin = |v: &Vec<i64>| v.iter().enumerate().map(|(i, &x)| if i % 5 == 4 { 0 } else { x }).collect::<Vec<i64>>();
        out.emit(babai_event(&f, &g, &f, &g, "FG-equals-fg"));
        out.emit(babai_event(&f, &g, &scale(&f, -1, 1), &scale(&g, -1, 1), "FG-negated-fg"));
        out.emit(babai_event(&f, &g, &clamp(&f, fmax / 2), &clamp(&g, fmax / 2), "FG-clamped-fg"));
        out.emit(babai_event(&f, &g, &clamp(&f, (fmax * 3) / 4), &clamp(&g, (fmax * 3) / 4), "FG-clamped-fg"));
        out.emit(babai_event(&f, &g, &scale(&f, 3, 4), &scale(&g, 3, 4), "FG-scaled-fg"));
        out.emit(babai_event(&f, &g, &scale(&f, -2, 3), &scale(&g, -2, 3), "FG-scaled-fg"));
        out.emit(babai_event(&f, &g, &thin(&f), &thin(&g), "FG-thinned-fg"));
    }
    out.emit(babai_event(&[4, 1], &[1, 2], &[3, 1], &[1, 1], "FG-smaller-than-fg"));
    // (F, G) one BYTE-LENGTH CLASS below (f, g) and not reduced: max|f,g| just above 2^8 (2^16) while max|F,G| stays below it, the
    // rounded quotient being +-1 (F, G = +-3/5 of f, g) -- an exit test on the coefficient sizes instead of on the quotient would
    // skip the reduction in one version only (seeded change C17-h)
    out.emit(babai_event(&[400, 0, 0, 0], &[0, 0, 0, 1], &[240, 0, 0, 0], &[0, 0, 0, 0], "FG-byte-class-below-fg"));
    let mut brng = rng_for(seed, "c17-byteclass"); // its own stream: the families below keep the inputs they had
    for &(n, bound) in &[(2usize, 256i64), (4, 256), (16, 256), (64, 256), (512, 256), (4, 65536), (16, 65536)] {
        let mut f: Vec<i64> = (0..n).map(|_| brng.gen_range(-bound * 5 / 4..=bound * 5 / 4)).collect();
        let g: Vec<i64> = (0..n).map(|_| brng.gen_range(-bound * 5 / 4..=bound * 5 / 4)).collect();
        f[0] = bound * 5 / 4 + 1; // the largest coefficient, in the upper class for certain
        let scale = |v: &Vec<i64>, num: i64, den: i64| v.iter().map(|&x| (x * num).div_euclid(den)).collect::<Vec<i64>>();
        for &num in &[3i64, -3] {
            let (cf, cg) = (scale(&f, num, 5), scale(&g, num, 5));
            debug_assert!(cf.iter().chain(cg.iter()).all(|x| x.abs() < bound));
            out.emit(babai_event(&f, &g, &cf, &cg, "FG-byte-class-below-fg"));
        }
    }
    // ill-conditioned (f, g): tiny at some roots of x^n + 1, so the quotient has coefficients far beyond those of (F, G)
    for &n in &[16usize, 256] {
        let mut f1 = vec![0i64; n]; // (1 + x)^2
        f1[0] = 1;
        f1[1] = 2;
        f1[2] = 1;
        let mut f2 = vec![0i64; n]; // 1 + x^(n/2)
        f2[0] = 1;
        f2[n / 2] = 1;
        let mut f3 = vec![0i64; n]; // (1 + x)^4
        for (i, c) in [1i64, 4, 6, 4, 1].iter().enumerate() {
            f3[i] = *c;
        }
        let xf1: Vec<i64> = (0..n).map(|i| if i == 0 { 0 } else { f1[i - 1] }).collect();
        let zero = vec![0i64; n];
        // deterministic inputs (independent of the run's seed): the failing ones are listed in KNOWN_FINDINGS.json by their digest
        let big: Vec<i64> = (0..n as i64).map(|i| (i * 7919 + 13) % 16777213 - 8388606).collect();
        let big2: Vec<i64> = (0..n as i64).map(|i| (i * 104729 + 7) % 16777213 - 8388606).collect();
        let small: Vec<i64> = (0..n as i64).map(|i| (i * 37) % 81 - 40).collect();
        // only the members that fail on the unchanged code are kept (defect D10, listed in KNOWN_FINDINGS.json by digest): whether
        // the other members of this family converge is decided by floating-point noise, which a behaviour-preserving change of the
        // transforms may alter -- they would make the check flaky in either direction
        for (f, g) in [(&f1, &zero), (&f1, &f1)] {
            out.emit(babai_event(f, g, &small, &small, "ill-conditioned-fg-small-FG"));
        }
        let _ = (f2, f3, xf1, big, big2);
    }
    let mut hrng = rng_for(20260927, "c17-half-fixed");
    // quotients that are exact half-integers: (F, G) = (2k+1)/2 * (f, g) with even f, g (rounding ties)
    for &n in &[2usize, 8, 64, 512] {
        let f: Vec<i64> = small_vec(&mut hrng, n, 4.0).iter().map(|x| 2 * x).collect();
        let g: Vec<i64> = small_vec(&mut hrng, n, 4.0).iter().map(|x| 2 * x + if n == 2 { 2 } else { 0 }).collect();
        if f.iter().all(|&x| x == 0) && g.iter().all(|&x| x == 0) {
            continue;
        }
        for &k in &[0i64, 1, -1, 50] {
            let m = 2 * k + 1;
            let cf: Vec<i64> = f.iter().map(|x| x / 2 * m).collect();
            let cg: Vec<i64> = g.iter().map(|x| x / 2 * m).collect();
            out.emit(babai_event(&f, &g, &cf, &cg, "half-integer-quotient"));
        }
    }
    // (inputs of the two tie families are FIXED, not derived from the run's seed: whether the unchanged code converges on a tie-heavy
    // input is decided by the signs of floating-point noise (defect D10: deterministic 2-cycles), so the inputs are chosen once, such
    // that it does, and every run judges the same ones)
    let mut trng = rng_for(20260927, "c17-ties-fixed");
    // many rounding ties at once: (F, G) = k (f, g) + h (f/2, g/2) with even f, g and a polynomial h of odd coefficients (the two
    // versions must resolve every tie the same way); small n, where the transforms are exact or nearly so
    // (n <= 4 only: with m simultaneous near-ties the loop of the unchanged code needs about 2^m iterations -- defect D10 -- so larger
    // n would fail for that reason, flakily)
    for &n in &[2usize, 4] {
        for rep in 0..10 {
            let f: Vec<i64> = small_vec(&mut trng, n, 5.0).iter().map(|x| 2 * x).collect();
            let g: Vec<i64> = small_vec(&mut trng, n, 5.0).iter().enumerate().map(|(i, x)| 2 * x + if i == rep % n { 2 } else { 0 }).collect();
            if f.iter().all(|&x| x == 0) && g.iter().all(|&x| x == 0) {
                continue;
            }
            let k: Vec<i64> = (0..n).map(|_| trng.gen_range(-30..=30)).collect();
            let h: Vec<i64> = (0..n).map(|_| 2 * trng.gen_range(-3..=3) + 1).collect();
            let hf: Vec<i64> = f.iter().map(|x| x / 2).collect();
            let hg: Vec<i64> = g.iter().map(|x| x / 2).collect();
            let (kf, kg, hhf, hhg) = (negacyclic_mul(&k, &f), negacyclic_mul(&k, &g), negacyclic_mul(&h, &hf), negacyclic_mul(&h, &hg));
            let cf: Vec<i64> = (0..n).map(|i| kf[i] + hhf[i]).collect();
            let cg: Vec<i64> = (0..n).map(|i| kg[i] + hhg[i]).collect();
            out.emit(babai_event(&f, &g, &cf, &cg, "many-ties"));
        }
    }
    // quotients that are ZERO DIVISORS modulo the 30-bit prime of the multi-modular version (p = 9343^2 + 31408^2, X^(n/2) is a square
    // root of -1): k = a + b X^(n/2) has zero NTT values although it is not zero (and k with a single zero NTT value in general)
    for &n in &[2usize, 8, 64, 512, 1024] {
        if !thorough && (n == 8 || n == 512) {
            continue;
        }
        let f = small_vec(&mut rng, n, 3.0).iter().map(|x| x + 1).collect::<Vec<_>>();
        let g = small_vec(&mut rng, n, 3.0);
        let f0 = small_vec(&mut rng, n, 4.0);
        let g0 = small_vec(&mut rng, n, 4.0);
        for (a, b) in [(9343i64, 31408i64), (31408, -9343), (-9343, 31408)] {
            let mut k = vec![0i64; n];
            k[0] = a;
            k[n / 2] += b;
            let (kf, kg) = (negacyclic_mul(&k, &f), negacyclic_mul(&k, &g));
            let cf: Vec<i64> = (0..n).map(|i| f0[i] + kf[i]).collect();
            let cg: Vec<i64> = (0..n).map(|i| g0[i] + kg[i]).collect();
            if cf.iter().chain(cg.iter()).all(|x| x.abs() <= lim) {
                out.emit(babai_event(&f, &g, &cf, &cg, "zero-divisor-quotient"));
            }
        }
    }
    // corners: all-zero (F,G) (defect D7 before fix 75957a9); unit f; sparse
    for &n in &[2usize, 4, 64] {
        let f = small_vec(&mut rng, n, 5.0).iter().map(|x| x + 1).collect::<Vec<_>>();
        let g = small_vec(&mut rng, n, 5.0);
        out.emit(babai_event(&f, &g, &vec![0; n], &vec![0; n], "zero-FG"));
        let mut e1 = vec![0i64; n];
        e1[0] = 1;
        out.emit(babai_event(&e1, &vec![0; n], &small_vec(&mut rng, n, 3000.0), &small_vec(&mut rng, n, 3000.0), "unit-f"));
        let big: Vec<i64> = (0..n).map(|i| if i % 2 == 0 { lim } else { -lim }).collect();
        out.emit(babai_event(&f, &g, &big, &big, "extreme-FG"));
    }
    // real keys: (f, g, F, G) of generated keys, shifted by k*(f,g)
    {
        let (sk, _) = V512::keygen(rng.gen());
        let b0 = V512::sk_b0(&sk);
        let g: Vec<i64> = b0[0].iter().map(|&x| x as i64).collect();
        let f: Vec<i64> = b0[1].iter().map(|&x| -(x as i64)).collect();
        let cg: Vec<i64> = b0[2].iter().map(|&x| x as i64).collect();
        let cf: Vec<i64> = b0[3].iter().map(|&x| -(x as i64)).collect();
        out.emit(babai_event(&f, &g, &cf, &cg, "real-key-reduced"));
        let k: Vec<i64> = (0..512).map(|_| rng.gen_range(-300..=300)).collect();
        let kf = negacyclic_mul(&k, &f);
        let kg = negacyclic_mul(&k, &g);
        let cf2: Vec<i64> = (0..512).map(|i| cf[i] + kf[i]).collect();
        let cg2: Vec<i64> = (0..512).map(|i| cg[i] + kg[i]).collect();
        if cf2.iter().chain(cg2.iter()).all(|x| x.abs() <= lim) {
            out.emit(babai_event(&f, &g, &cf2, &cg2, "real-key-shifted"));
        }
    }
    println!("events {}", out.finish());
}
