//! Growth beyond the listed properties: the NTRU solver's field-norm tower (mechanism behind C04).
//! For a top-level (f, g) of degree n the driver descends the tower f_{i+1} = N(f_i) (field norm, computed here only to
//! obtain each level's inputs) and asks the REAL recursive solver for (F_i, G_i) at every level; TLC checks the NTRU
//! equation f_i G_i - g_i F_i = q over Z[x]/(x^{n_i}+1) exactly on signed big integers.
use crate::common::*;
use falcon_rust::verif;
use num::{BigInt, Signed, Zero};
use rand::Rng;
use serde_json::{json, Value};
use std::path::PathBuf;

fn big_json(x: &BigInt) -> Value {
    // [neg, little-endian 15-bit limbs]
    let mut limbs = vec![];
    let mut m = x.abs();
    let base = BigInt::from(32768);
    while !m.is_zero() {
        let r = &m % &base;
        limbs.push(r.to_string().parse::<u64>().unwrap());
        m /= &base;
    }
    json!({"neg": x.is_negative(), "mag": limbs})
}
fn poly_json(p: &[BigInt]) -> Value {
    Value::Array(p.iter().map(big_json).collect())
}

fn negacyclic_mul(a: &[BigInt], b: &[BigInt]) -> Vec<BigInt> {
    let n = a.len();
    let mut c = vec![BigInt::zero(); n];
    for i in 0..n {
        for j in 0..n {
            let k = i + j;
            if k < n {
                c[k] += &a[i] * &b[j];
            } else {
                c[k - n] -= &a[i] * &b[j];
            }
        }
    }
    c
}
/// N(f)(x^2) = f(x) f(-x): even coefficients of the product, in the ring of half the size
fn field_norm(f: &[BigInt]) -> Vec<BigInt> {
    let n = f.len();
    let fm: Vec<BigInt> = f.iter().enumerate().map(|(i, c)| if i % 2 == 1 { -c.clone() } else { c.clone() }).collect();
    let p = negacyclic_mul(f, &fm);
    (0..n / 2).map(|i| p[2 * i].clone()).collect()
}

pub fn solve(args: &Args) {
    let seed = args.num("--seed", 1);
    let thorough = args.thorough();
    let dir = PathBuf::from(args.get_or("--out", "work/solve"));
    let mut out = Shards::create(&dir, "solve", args.num("--shards", 8) as usize);
    let mut rng = rng_for(seed, "solve");
    let tops: Vec<usize> = if thorough { vec![2, 8, 32, 64, 128] } else { vec![4, 32] };
    for &n in &tops {
        for rep in 0..(if thorough { 3 } else { 1 }) {
            let sigma = 1.17 * (12289.0 / (2.0 * n as f64)).sqrt();
            let gauss = |rng: &mut rand_chacha::ChaCha20Rng| -> BigInt {
                let u1: f64 = rng.gen::<f64>().max(1e-12);
                let u2: f64 = rng.gen();
                BigInt::from(((-2.0 * u1.ln()).sqrt() * (2.0 * std::f64::consts::PI * u2).cos() * sigma).round() as i64)
            };
            let mut f: Vec<BigInt> = (0..n).map(|_| gauss(&mut rng)).collect();
            let mut g: Vec<BigInt> = (0..n).map(|_| gauss(&mut rng)).collect();
            let mut level = 0;
            loop {
                let m = f.len();
                let r = guarded(|| verif::ntru_solve_bigint(&f, &g));
                let (status, cf, cg) = match r {
                    Outcome::Ret(Some((a, b))) => ("some", a, b),
                    Outcome::Ret(None) => ("none", vec![], vec![]),
                    Outcome::Panic(_) => ("panic", vec![], vec![]),
                };
                out.emit(json!({"ev":"solve","top":n,"rep":rep,"level":level,"n":m,"f":poly_json(&f),"g":poly_json(&g),
                                "status":status,"F":poly_json(&cf),"G":poly_json(&cg),"tag":format!("top{}-level{}", n, level)}));
                if m == 1 {
                    break;
                }
                f = field_norm(&f);
                g = field_norm(&g);
                level += 1;
            }
        }
    }
    // Karatsuba multiplication of big-integer polynomials (used by the lift step of the solver) against the schoolbook product
    for &n in &[1usize, 2, 8, 16, 32, 64] {
        for bits in [8u32, 70, 300] {
            let big = |rng: &mut rand_chacha::ChaCha20Rng| -> BigInt {
                let mut x = BigInt::from(rng.gen_range(0..255u32));
                for _ in 0..(bits / 8) {
                    x = x * 256 + BigInt::from(rng.gen_range(0..256u32));
                }
                if rng.gen::<bool>() { -x } else { x }
            };
            let a: Vec<BigInt> = (0..n).map(|_| big(&mut rng)).collect();
            let b: Vec<BigInt> = (0..n).map(|_| big(&mut rng)).collect();
            let (status, prod) = match guarded(|| verif::karatsuba_bigint(&a, &b)) {
                Outcome::Ret(p) => ("some", p),
                Outcome::Panic(_) => ("panic", vec![]),
            };
            out.emit(json!({"ev":"karatsuba","n":n,"a":poly_json(&a),"b":poly_json(&b),"status":status,"prod":poly_json(&prod),"tag":format!("karatsuba-n{}-bits{}", n, bits)}));
        }
    }
    println!("events {}", out.finish());
}
