//! Growth: the polynomial helpers of the NTRU solver (public, doc-hidden methods of `Polynomial`): field norm, lift, Galois
//! adjoint, Hermitian adjoint, reduction modulo x^n + 1 -- on small integer inputs, judged by Trace_Poly.
use crate::common::*;
use falcon_rust::polynomial::Polynomial;
use rand::Rng;
use serde_json::{json, Value};
use std::path::PathBuf;

fn ev(op: &str, n: usize, a: &[i32], m: usize, r: Outcome<Vec<i32>>) -> Value {
    let (res, panic) = match r {
        Outcome::Ret(v) => (v, false),
        Outcome::Panic(_) => (vec![], true),
    };
    json!({"ev":"polyop","op":op,"n":n,"a":i32s_json(a),"m":m,"res":i32s_json(&res),"panic":panic,"tag":format!("{}-n{}", op, n)})
}

pub fn polyhelpers(args: &Args) {
    let seed = args.num("--seed", 1);
    let dir = PathBuf::from(args.get_or("--out", "work/poly"));
    let mut out = Shards::create(&dir, "poly", args.num("--shards", 8) as usize);
    let mut rng = rng_for(seed, "poly");
    let reps = if args.thorough() { 12 } else { 2 };
    for w in 1..=7usize {
        let n = 1usize << w;
        for rep in 0..reps {
            let a: Vec<i32> = match rep {
                0 => (0..n).map(|i| if i % 2 == 0 { 90 } else { -90 }).collect(),
                _ => (0..n).map(|_| rng.gen_range(-90..=90)).collect(),
            };
            let p = Polynomial::new(a.clone());
            out.emit(ev("field_norm", n, &a, 0, guarded(|| p.field_norm().coefficients)));
            out.emit(ev("lift", n, &a, 0, guarded(|| p.lift_next_cyclotomic().coefficients)));
            out.emit(ev("galois_adjoint", n, &a, 0, guarded(|| p.galois_adjoint().coefficients)));
            out.emit(ev("hermitian_adjoint", n, &a, 0, guarded(|| p.hermitian_adjoint().coefficients)));
            // reduction of a longer polynomial (length 2n-1, 2n, 3n+1) modulo x^n + 1
            for &len in &[2 * n - 1, 2 * n, 3 * n + 1] {
                let b: Vec<i32> = (0..len).map(|_| rng.gen_range(-1000..=1000)).collect();
                let q = Polynomial::new(b.clone());
                out.emit(ev("reduce", n, &b, n, guarded(|| q.reduce_by_cyclotomic(n).coefficients)));
            }
        }
    }
    println!("events {}", out.finish());
}
