//! C12 (Z_q element operations) and C11 (Z_q transforms) through the hook wrappers.
use crate::common::*;
use falcon_rust::verif;
use rand::Rng;
use serde_json::{json, Value};
use std::path::PathBuf;

const Q: i32 = 12289;
const M: i64 = 1000003;

/// a panic is recorded as the sentinel -99999 (never a legal value)
fn guarded_i16(f: impl FnOnce() -> i16) -> Value {
    match guarded(f) {
        Outcome::Ret(v) => json!(v),
        Outcome::Panic(_) => json!(-99999),
    }
}

/// Row digest of op(a, b) over all a in [0,q): (sum mod M, weighted sum mod M, max, min).
fn row(op: &str, b: i16) -> Value {
    let mut s: i64 = 0;
    let mut w: i64 = 0;
    let mut mx: i64 = i64::MIN;
    let mut mn: i64 = i64::MAX;
    let mut panics = 0;
    for a in 0..Q as i16 {
        let r = guarded(|| match op {
            "add" => verif::felt_add(a, b),
            "sub" => verif::felt_sub(a, b),
            "mul" => verif::felt_mul(a, b),
            _ => verif::felt_op2(op, a, b),
        });
        match r {
            Outcome::Ret(r) => {
                let r = r as i64;
                s = (s + r).rem_euclid(M);
                w = (w + (a as i64 + 1) * r).rem_euclid(M);
                mx = mx.max(r);
                mn = mn.min(r);
            }
            Outcome::Panic(_) => panics += 1,
        }
    }
    json!({"ev":"row","op":op,"b":b,"sum":s,"wsum":w,"max":mx,"min":mn,"panics":panics,"tag":"row"})
}

pub fn c12(args: &Args) {
    let seed = args.num("--seed", 1);
    let thorough = args.thorough();
    let dir = PathBuf::from(args.get_or("--out", "work/c12"));
    let mut out = Shards::create(&dir, "felt", args.num("--shards", 12) as usize);
    let mut rng = rng_for(seed, "c12");
    // full unary tables
    let newt: Vec<Value> = (i16::MIN..=i16::MAX).map(|v| guarded_i16(|| verif::felt_new(v))).collect();
    out.emit(json!({"ev":"table","op":"new","first":i16::MIN,"vals":newt,"tag":"table"}));
    for op in ["neg", "inv", "balanced", "value"] {
        let vals: Vec<Value> = (0..Q as i16)
            .map(|a| guarded_i16(|| match op {
                "neg" => verif::felt_neg(a),
                "inv" => verif::felt_inverse_or_zero(a),
                "balanced" => verif::felt_balanced(a),
                _ => verif::felt_new(a),
            }))
            .collect();
        out.emit(json!({"ev":"table","op":op,"first":0,"vals":vals,"tag":"table"}));
    }
    // binary operations: row digests
    let bs: Vec<i16> = if thorough {
        (0..Q as i16).collect()
    } else {
        let mut v: Vec<i16> = vec![0, 1, 2, 3, 6143, 6144, 6145, 6146, 12286, 12287, 12288, 4096, 8192, 1331, 7, 49];
        while v.len() < 256 {
            v.push(rng.gen_range(0..Q as i16));
        }
        v
    };
    for op in ["add", "sub", "mul"] {
        for &b in &bs {
            out.emit(row(op, b));
        }
    }
    // native sweep over ALL operand pairs of every binary operator impl (selection only): a row in which any entry departs from
    // plain integer arithmetic is promoted to a judged row event -- so a fault confined to a handful of the 151 M pairs is seen in
    // the quick tier too (TLC judges the promoted row like any other)
    if !thorough {
        let ops = ["add", "sub", "mul", "add_assign", "sub_assign", "mul_assign", "multiply", "div"];
        let mut handles = vec![];
        for t in 0..16i32 {
            handles.push(std::thread::spawn(move || {
                crate::common::install_panic_hook();
                let mut found: Vec<(&'static str, i16)> = vec![];
                // modular inverses by the extended Euclid of the harness (for "div")
                let inv = |b: i64| -> i64 { let (mut r0, mut r1, mut s0, mut s1) = (Q as i64, b, 0i64, 1i64); while r1 != 0 { let k = r0 / r1; (r0, r1) = (r1, r0 - k * r1); (s0, s1) = (s1, s0 - k * s1); } s0.rem_euclid(Q as i64) };
                for b in (t..Q).step_by(16) {
                    let bi = inv(b as i64);
                    for (oi, op) in ops.iter().enumerate() {
                        if *op == "div" && b == 0 {
                            continue;
                        }
                        let mut bad = false;
                        for a in 0..Q {
                            let want = match oi { 0 | 3 => (a + b) % Q, 1 | 4 => (a - b).rem_euclid(Q), 7 => ((a as i64 * bi) % Q as i64) as i32, _ => ((a as i64 * b as i64) % Q as i64) as i32 };
                            let got = guarded(|| match oi {
                                0 => verif::felt_add(a as i16, b as i16),
                                1 => verif::felt_sub(a as i16, b as i16),
                                2 => verif::felt_mul(a as i16, b as i16),
                                _ => verif::felt_op2(op, a as i16, b as i16),
                            });
                            if !matches!(got, Outcome::Ret(g) if g as i32 == want) {
                                bad = true;
                                break;
                            }
                        }
                        if bad && found.len() < 6 {
                            found.push((op, b as i16));
                        }
                    }
                }
                found
            }));
        }
        let mut promoted = 0;
        for h in handles {
            for (op, b) in h.join().unwrap() {
                if promoted < 24 && !bs.contains(&b) {
                    out.emit(row(op, b));
                    promoted += 1;
                }
            }
        }
        eprintln!("[c12] native sweep over all operand pairs of 8 operator impls: {} anomalous rows promoted", promoted);
    }
    // the other operator impls: compound assignment (what Polynomial's own arithmetic uses), division, `multiply`
    {
        let mut fixed: Vec<i16> = vec![0, 1, 2, 6144, 6145, 12287, 12288, 12277, 8192];
        while fixed.len() < (if thorough { 400 } else { 24 }) {
            fixed.push(rng.gen_range(0..Q as i16));
        }
        for op in ["add_assign", "sub_assign", "mul_assign", "multiply", "div"] {
            for &b in &fixed {
                if op == "div" && b == 0 {
                    continue; // division by zero panics by design
                }
                out.emit(row(op, b));
            }
        }
    }
    // chains that never leave the field type: t = (a + b) * c - d, 1/t, is_zero, == (an internal representative that is not
    // canonical is invisible through value() of a fresh result but not through is_zero / == / a following operation)
    {
        let pick = |rng: &mut rand_chacha::ChaCha20Rng| -> i16 {
            match rng.gen_range(0..4) {
                0 => [0i16, 1, 12288, 6144, 6145][rng.gen_range(0..5)],
                _ => rng.gen_range(0..Q as i16),
            }
        };
        let mut rows = vec![];
        for i in 0..(if thorough { 60000 } else { 6000 }) {
            let (a, b, c) = (pick(&mut rng), pick(&mut rng), pick(&mut rng));
            // every third chain ends in t = 0, every fifth has a + b = q
            let b = if i % 5 == 0 { ((Q - a as i32) % Q) as i16 } else { b };
            let d = if i % 3 == 0 { (((a as i64 + b as i64) * c as i64).rem_euclid(Q as i64)) as i16 } else { pick(&mut rng) };
            let r = match guarded(|| verif::felt_chain(a, b, c, d)) {
                Outcome::Ret((v, inv, z, e1, e2)) => json!([a, b, c, d, v, inv, z as i32, e1 as i32, e2 as i32]),
                Outcome::Panic(_) => json!([a, b, c, d, -99999, 0, 0, 0, 0]),
            };
            rows.push(r);
            if rows.len() == 1000 {
                out.emit(json!({"ev":"chain","rows":rows,"tag":"chain"}));
                rows = vec![];
            }
        }
        if !rows.is_empty() {
            out.emit(json!({"ev":"chain","rows":rows,"tag":"chain"}));
        }
    }
    // call SEQUENCES with many repeats over a small value set (state kept between calls: a one-entry memo, a "nothing to do"
    // shortcut): inputs and outputs recorded in call order
    {
        let vals: [i16; 8] = [0, 0, 1, 5, 6144, 6145, 12288, 7];
        for op in ["inv", "neg", "balanced", "add", "mul", "sub"] {
            let xs: Vec<i16> = (0..240).map(|_| vals[rng.gen_range(0..vals.len())]).collect();
            let ys: Vec<i16> = (0..240).map(|_| vals[rng.gen_range(0..vals.len())]).collect();
            let res: Vec<Value> = xs.iter().zip(ys.iter()).map(|(&x, &y)| guarded_i16(|| match op {
                "inv" => verif::felt_inverse_or_zero(x),
                "neg" => verif::felt_neg(x),
                "balanced" => verif::felt_balanced(x),
                "add" => verif::felt_add(x, y),
                "mul" => verif::felt_mul(x, y),
                _ => verif::felt_sub(x, y),
            })).collect();
            out.emit(json!({"ev":"opseq","op":op,"xs":i16s_json(&xs),"ys":i16s_json(&ys),"res":res,"tag":"opseq"}));
        }
    }
    // batch inversion: zeros at every position class
    for &len in &[1usize, 2, 3, 8, 64] {
        for zpos in 0..=len.min(4) {
            let mut v: Vec<i16> = (0..len).map(|_| rng.gen_range(1..Q as i16)).collect();
            if zpos < len {
                v[zpos] = 0;
            }
            if zpos == 3 && len > 3 {
                v[len - 1] = 0;
                v[0] = 0;
            }
            let r = match guarded(|| verif::felt_batch_inverse_or_zero(&v)) {
                Outcome::Ret(r) => i16s_json(&r),
                Outcome::Panic(_) => json!([-99999]),
            };
            out.emit(json!({"ev":"batchinv","v":i16s_json(&v),"res":r,"tag":"batchinv"}));
        }
    }
    // batch inversion shapes: empty, all zero, block-sized lengths with zeros around multiples of 64 (a chunked implementation)
    {
        let mut shapes: Vec<Vec<i16>> = vec![vec![], vec![0], vec![0, 0], vec![0; 64], vec![0; 65]];
        // batches whose running product passes through 1 (an element followed by its inverse), -1, and ends at 1
        for _ in 0..(if thorough { 40 } else { 6 }) {
            let a = rng.gen_range(2..Q as i16);
            let b = rng.gen_range(2..Q as i16);
            let ai = verif::felt_inverse_or_zero(a);
            let abi = verif::felt_inverse_or_zero(verif::felt_mul(a, b));
            shapes.push(vec![a, ai]);
            shapes.push(vec![a, ai, b, 7]);
            shapes.push(vec![a, 0, ai, b]);
            shapes.push(vec![a, b, abi]);
            shapes.push(vec![b, a, verif::felt_neg(abi), 5, 1]);
            shapes.push(vec![1, 1, a, 1, ai, 1]);
        }
        shapes.push(vec![1]);
        shapes.push(vec![1, 1, 1]);
        shapes.push(vec![12288, 12288]);
        shapes.push(vec![2, 6145]);
        for &len in &[63usize, 64, 65, 128, 512, 1024] {
            let mut v: Vec<i16> = (0..len).map(|_| rng.gen_range(1..Q as i16)).collect();
            shapes.push(v.clone());
            for k in (0..len).step_by(64) {
                if k > 0 {
                    v[k - 1] = 0;
                }
                if k + 1 < len && (k / 64) % 2 == 0 {
                    v[k + 1] = 0;
                }
            }
            shapes.push(v.clone());
            v[0] = 0;
            v[len - 1] = 0;
            shapes.push(v);
        }
        for v in shapes {
            let r = match guarded(|| verif::felt_batch_inverse_or_zero(&v)) {
                Outcome::Ret(r) => i16s_json(&r),
                Outcome::Panic(_) => json!([-99999]),
            };
            out.emit(json!({"ev":"batchinv","v":i16s_json(&v),"res":r,"tag":"batchinv-shape"}));
        }
    }
    println!("events {}", out.finish());
}

// ---------------------------------------------------------------- C11

/// a panic is recorded as the one-element vector [-99999] (never a legal result)
fn vec_or_panic(f: impl FnOnce() -> Vec<i16>) -> Value {
    match guarded(f) {
        Outcome::Ret(v) => i16s_json(&v),
        Outcome::Panic(_) => json!([-99999]),
    }
}

pub fn c11(args: &Args) {
    let seed = args.num("--seed", 1);
    let thorough = args.thorough();
    let dir = PathBuf::from(args.get_or("--out", "work/c11"));
    let mut out = Shards::create(&dir, "ntt", args.num("--shards", 12) as usize);
    let mut rng = rng_for(seed, "c11");
    // tables
    let ninv = verif::felt_table_ninv();
    out.emit(json!({"ev":"tables","powers":i16s_json(&verif::felt_table_powers()),"powers_inv":i16s_json(&verif::felt_table_powers_inverse()),
                    "ninv_n":ninv.iter().map(|x| x.0).collect::<Vec<_>>(),"ninv":ninv.iter().map(|x| x.1).collect::<Vec<_>>(),"tag":"tables"}));
    for w in 0..=10usize {
        let n = 1usize << w;
        // forward transform of basis vectors
        let idxs: Vec<usize> = if thorough || n <= 64 {
            (0..n).collect()
        } else {
            let mut v = vec![0, 1, 2, n / 2 - 1, n / 2, n - 2, n - 1];
            for _ in 0..9 {
                v.push(rng.gen_range(0..n));
            }
            v
        };
        for i in idxs {
            let mut a = vec![0i16; n];
            a[i] = 1;
            out.emit(json!({"ev":"fft-basis","n":n,"i":i,"out":vec_or_panic(|| verif::ntt_fft(&a)),"tag":"fft-basis"}));
        }
        // general vectors: forward, round trip, product
        let reps = if thorough { 60 } else if n >= 256 { 10 } else { 3 };
        for r in 0..reps {
            let a: Vec<i16> = match r {
                0 => vec![12288i16; n],
                1 => (0..n).map(|i| if i % 2 == 0 { 12288 } else { 0 }).collect(),
                _ => (0..n).map(|_| rng.gen_range(0..Q as i16)).collect(),
            };
            let b: Vec<i16> = match r {
                0 => vec![12288i16; n],
                1 => { let mut v = vec![0i16; n]; v[n - 1] = 12288; v }
                _ => (0..n).map(|_| rng.gen_range(0..Q as i16)).collect(),
            };
            out.emit(json!({"ev":"fft","n":n,"a":i16s_json(&a),"out":vec_or_panic(|| verif::ntt_fft(&a)),"tag":"fft"}));
            out.emit(json!({"ev":"roundtrip","n":n,"a":i16s_json(&a),"out":vec_or_panic(|| verif::ntt_ifft(&verif::ntt_fft(&a))),"tag":"roundtrip"}));
            out.emit(json!({"ev":"mul","n":n,"a":i16s_json(&a),"b":i16s_json(&b),
                            "out":vec_or_panic(|| verif::ntt_ifft(&verif::ntt_hadamard_mul(&verif::ntt_fft(&a), &verif::ntt_fft(&b)))),"tag":"mul"}));
        }
    }
    // degenerate and structured operands at every length: zero, one, monomials, constants -- in both operand positions
    for w in 0..=10usize {
        let n = 1usize << w;
        if !thorough && ![1usize, 2, 8, 64, 512, 1024].contains(&n) {
            continue;
        }
        let zero = vec![0i16; n];
        let mut one = vec![0i16; n];
        one[0] = 1;
        let mut minus_one = vec![0i16; n];
        minus_one[0] = 12288;
        let mut xlast = vec![0i16; n];
        xlast[n - 1] = 1;
        let mut xmid = vec![0i16; n];
        xmid[n / 2] = 12288;
        let gen: Vec<i16> = (0..n).map(|_| rng.gen_range(0..Q as i16)).collect();
        let consts = vec![6145i16; n];
        let ops: Vec<(&Vec<i16>, &Vec<i16>)> = vec![(&zero, &gen), (&gen, &zero), (&zero, &zero), (&one, &gen), (&gen, &one), (&minus_one, &gen), (&xlast, &gen),
                                                    (&gen, &xlast), (&xlast, &xlast), (&xmid, &xmid), (&consts, &gen), (&one, &one), (&zero, &one)];
        for (a, b) in ops {
            out.emit(json!({"ev":"mul","n":n,"a":i16s_json(a),"b":i16s_json(b),
                            "out":vec_or_panic(|| verif::ntt_ifft(&verif::ntt_hadamard_mul(&verif::ntt_fft(a), &verif::ntt_fft(b)))),"tag":"mul-degenerate"}));
        }
        out.emit(json!({"ev":"fft","n":n,"a":i16s_json(&zero),"out":vec_or_panic(|| verif::ntt_fft(&zero)),"tag":"fft-zero"}));
        out.emit(json!({"ev":"roundtrip","n":n,"a":i16s_json(&zero),"out":vec_or_panic(|| verif::ntt_ifft(&verif::ntt_fft(&zero))),"tag":"roundtrip-zero"}));
    }
    // structured vectors fed DIRECTLY to the inverse (and the forward) transform: aligned blocks of extreme values (q-1, q-2 / 0, 1) of
    // every block length and both phases -- in a transform with delayed reductions the accumulators reach their bound only
    // when a whole block of inputs is extreme and the twiddle is large, which random data never produces
    for w in 1..=10usize {
        let n = 1usize << w;
        if !thorough && ![2usize, 32, 128, 256, 512, 1024].contains(&n) {
            continue;
        }
        let mut vs: Vec<Vec<i16>> = vec![vec![12288i16; n], (0..n).map(|i| (i * 12288 / n.max(2)) as i16).collect()];
        let mut bl = 1;
        while bl < n {
            for phase in 0..2usize {
                for (hi, lo) in [(12288i16, 0i16), (12287, 1)] {
                    if !thorough && hi == 12287 && bl % 4 == 2 {
                        continue;
                    }
                    vs.push((0..n).map(|i| if (i / bl + phase) % 2 == 0 { hi } else { lo }).collect());
                }
            }
            bl *= 2;
        }
        // one extreme block pair among random data, at a few block positions
        for bl in [8usize, 16, 32] {
            if 2 * bl <= n {
                for pos in [0usize, 1, 3, 5, (n / (2 * bl)).saturating_sub(1)] {
                    if pos < n / (2 * bl) {
                        let mut v: Vec<i16> = (0..n).map(|_| rng.gen_range(0..Q as i16)).collect();
                        for i in 0..bl {
                            v[pos * 2 * bl + i] = 12288;
                            v[pos * 2 * bl + bl + i] = 0;
                        }
                        vs.push(v);
                    }
                }
            }
        }
        for v in vs {
            out.emit(json!({"ev":"ifft","n":n,"a":i16s_json(&v),"out":vec_or_panic(|| verif::ntt_ifft(&v)),"tag":"ifft-structured"}));
            out.emit(json!({"ev":"fft","n":n,"a":i16s_json(&v),"out":vec_or_panic(|| verif::ntt_fft(&v)),"tag":"fft-structured"}));
        }
    }
    // prefix-related inputs in consecutive calls: v[..n] for growing and then shrinking n (a memo keyed by content without the
    // length, or a buffer not truncated, answers the previous call's result)
    {
        let v: Vec<i16> = (0..1024).map(|i| if i == 0 { 1 } else { rng.gen_range(0..Q as i16) }).collect();
        let ones = vec![1i16; 1024];
        for src in [&v, &ones] {
            let mut order: Vec<usize> = (0..=10).collect();
            order.extend((0..=9).rev());
            for w in order {
                let n = 1usize << w;
                let a = src[..n].to_vec();
                out.emit(json!({"ev":"fft","n":n,"a":i16s_json(&a),"out":vec_or_panic(|| verif::ntt_fft(&a)),"tag":"fft-prefix"}));
                out.emit(json!({"ev":"roundtrip","n":n,"a":i16s_json(&a),"out":vec_or_panic(|| verif::ntt_ifft(&verif::ntt_fft(&a))),"tag":"roundtrip-prefix"}));
            }
        }
    }
    // the same kinds of calls once more with the lengths in DESCENDING and then in an interleaved order (a table or scratch
    // buffer cached from a previous, different length would show here but not in the ascending pass above)
    let mut order: Vec<usize> = (0..=10).rev().collect();
    order.extend([3usize, 10, 1, 9, 0, 8, 2, 10, 5]);
    for w in order {
        let n = 1usize << w;
        let a: Vec<i16> = (0..n).map(|_| rng.gen_range(0..Q as i16)).collect();
        let b: Vec<i16> = (0..n).map(|_| rng.gen_range(0..Q as i16)).collect();
        out.emit(json!({"ev":"mul","n":n,"a":i16s_json(&a),"b":i16s_json(&b),
                        "out":vec_or_panic(|| verif::ntt_ifft(&verif::ntt_hadamard_mul(&verif::ntt_fft(&a), &verif::ntt_fft(&b)))),"tag":"mul-order"}));
        out.emit(json!({"ev":"roundtrip","n":n,"a":i16s_json(&a),"out":vec_or_panic(|| verif::ntt_ifft(&verif::ntt_fft(&a))),"tag":"roundtrip-order"}));
    }
    println!("events {}", out.finish());
}

// ---------------------------------------------------------------- 30-bit field (multi-modular arithmetic of babai_reduce_i32 / ntru_solve)

const UQ: u64 = 1073754113;

fn u32_or_panic(f: impl FnOnce() -> u32) -> i64 {
    match guarded(f) {
        Outcome::Ret(v) => v as i64,
        Outcome::Panic(_) => -99999,
    }
}

pub fn u32field(args: &Args) {
    let seed = args.num("--seed", 1);
    let thorough = args.thorough();
    let dir = PathBuf::from(args.get_or("--out", "work/u32"));
    let mut out = Shards::create(&dir, "u32f", args.num("--shards", 12) as usize);
    let mut rng = rng_for(seed, "u32f");
    let q = UQ as u32;
    // operand classes: tiny, just below 2^15 / 2^16 (products crossing 2^30, 2^31, 2^32), around q/2, just below q, random
    let mut special: Vec<u32> = vec![0, 1, 2, 3, 32767, 32768, 32769, 46340, 46341, 65535, 65536, 65537, 1 << 20, (1 << 30) - 1, 1 << 30,
                                     q / 2 - 1, q / 2, q / 2 + 1, q - 65536, q - 32768, q - 2, q - 1];
    for _ in 0..(if thorough { 60 } else { 12 }) {
        special.push(rng.gen_range(0..q));
        special.push(rng.gen_range(0..65536));
        special.push(rng.gen_range(60000..65536));
    }
    for &a in &special {
        for &b in &special {
            let r = [
                u32_or_panic(|| verif::u32f_add(a, b)),
                u32_or_panic(|| verif::u32f_sub(a, b)),
                u32_or_panic(|| verif::u32f_mul(a, b)),
            ];
            // the compound-assignment impls, `multiply` and division (b != 0) must agree with the by-value operators' specification
            let r2 = [
                u32_or_panic(|| verif::u32f_op2("add_assign", a, b)),
                u32_or_panic(|| verif::u32f_op2("sub_assign", a, b)),
                u32_or_panic(|| verif::u32f_op2("mul_assign", a, b)),
                u32_or_panic(|| verif::u32f_op2("multiply", a, b)),
                if b == 0 { -1 } else { u32_or_panic(|| verif::u32f_op2("div", a, b)) },
            ];
            out.emit(json!({"ev":"u32bin","a":a,"b":b,"add":r[0],"sub":r[1],"mul":r[2],"add_assign":r2[0],"sub_assign":r2[1],"mul_assign":r2[2],
                            "multiply":r2[3],"div":r2[4],"tag":"bin"}));
        }
        out.emit(json!({"ev":"u32un","a":a,"neg":u32_or_panic(|| verif::u32f_neg(a)),"inv":u32_or_panic(|| verif::u32f_inverse_or_zero(a)),
                        "bal":match guarded(|| verif::u32f_balanced(a)) { Outcome::Ret(v) => v as i64, _ => -99999 },"tag":"un"}));
    }
    // conversions inside the reach of C17 (|v| < p; coefficients and quotients are far below); U32Field::new(-p) returns p
    // (non-canonical, like the repaired Felt::new did) but no listed property quantifies over such inputs
    let mut news: Vec<i32> = vec![0, 1, -1, 1073754112, -1073754112, 536870912, -536870912, 16777216, -16777216, 16777215, -16777215, 65536, -65536];
    for j in 1..=30u32 {
        for d in [-1i64, 0, 1] {
            let v = (1i64 << j) + d;
            if v.abs() < UQ as i64 {
                news.push(v as i32);
                news.push(-(v as i32));
            }
        }
    }
    for _ in 0..(if thorough { 4000 } else { 300 }) {
        news.push(rng.gen_range(-(1i32 << 25)..(1 << 25)));
        news.push(rng.gen_range(-(UQ as i32 - 1)..(UQ as i32)));
    }
    for &v in &news {
        out.emit(json!({"ev":"u32new","v":v,"res":u32_or_panic(|| verif::u32f_new(v)),"tag":"new"}));
    }
    // tables
    let ninv = verif::u32f_table_ninv();
    out.emit(json!({"ev":"u32tables","powers":verif::u32f_table_powers(),"powers_inv":verif::u32f_table_powers_inverse(),
                    "ninv_n":ninv.iter().map(|x| x.0).collect::<Vec<_>>(),"ninv":ninv.iter().map(|x| x.1).collect::<Vec<_>>(),"tag":"tables"}));
    // transforms: round trip and product against small-coefficient inputs (exact over Z: products < 2^29 fit the balanced range)
    for w in 1..=10usize {
        let n = 1usize << w;
        let a: Vec<i64> = (0..n).map(|_| rng.gen_range(-2000..=2000)).collect();
        let b: Vec<i64> = (0..n).map(|_| rng.gen_range(-100..=100)).collect();
        let ua: Vec<u32> = a.iter().map(|&x| verif::u32f_new(x as i32)).collect();
        let ub: Vec<u32> = b.iter().map(|&x| verif::u32f_new(x as i32)).collect();
        let prod = match guarded(|| {
            let fa = verif::u32f_fft(&ua);
            let fb = verif::u32f_fft(&ub);
            let m: Vec<u32> = fa.iter().zip(fb.iter()).map(|(&x, &y)| verif::u32f_mul(x, y)).collect();
            verif::u32f_ifft(&m).iter().map(|&x| verif::u32f_balanced(x) as i64).collect::<Vec<i64>>()
        }) {
            Outcome::Ret(v) => v,
            Outcome::Panic(_) => vec![-99999],
        };
        let rt = match guarded(|| verif::u32f_ifft(&verif::u32f_fft(&ua)).iter().map(|&x| verif::u32f_balanced(x) as i64).collect::<Vec<i64>>()) {
            Outcome::Ret(v) => v,
            Outcome::Panic(_) => vec![-99999],
        };
        out.emit(json!({"ev":"u32mul","n":n,"a":a,"b":b,"prod":prod,"rt":rt,"tag":"mul"}));
    }
    // structured vectors over the whole range [0, p): aligned blocks of p-1 / 0 of every length and phase (delayed reductions)
    for w in 1..=10usize {
        let n = 1usize << w;
        if !thorough && ![2usize, 32, 256, 1024].contains(&n) {
            continue;
        }
        let mut vs: Vec<Vec<u32>> = vec![vec![q - 1; n]];
        let mut bl = 1;
        while bl < n {
            for phase in 0..2usize {
                vs.push((0..n).map(|i| if (i / bl + phase) % 2 == 0 { q - 1 } else { 0 }).collect());
            }
            bl *= 2;
        }
        vs.push((0..n).map(|_| rng.gen_range(0..q)).collect());
        for v in vs {
            let r = guarded(|| (verif::u32f_ifft(&verif::u32f_fft(&v)), verif::u32f_fft(&verif::u32f_ifft(&v)), verif::u32f_fft(&v)));
            let (a, b, c) = match r {
                Outcome::Ret(x) => x,
                Outcome::Panic(_) => (vec![], vec![], vec![]),
            };
            out.emit(json!({"ev":"u32rt","n":n,"a":v,"fwd_inv":a,"inv_fwd":b,"fwd":c,"tag":"rt-structured"}));
        }
    }
    println!("events {}", out.finish());
}
