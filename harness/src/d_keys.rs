//! Key events for C04 (valid NTRU trapdoor, leaves in range) and C05 (fixed sizes, exact round trip).
use crate::common::*;
use crate::d_verify::honest_event;
use crate::variant::*;
use falcon_rust::verif::{self, Event, Plan};
use rand::Rng;
use serde_json::{json, Value};
use std::path::PathBuf;

pub struct KeyObs {
    pub heavy: Value,
    pub light: Value,
    pub interesting: bool,
}

fn maxabs(v: &[i16]) -> i64 {
    v.iter().map(|x| (*x as i64).abs()).max().unwrap_or(0)
}
fn minval(v: &[i16]) -> i64 {
    v.iter().map(|x| *x as i64).min().unwrap_or(0)
}

/// Generate a key from a seed and observe everything C04 / C05 talk about.
pub fn observe_key<V: Fv>(seed: [u8; 32], tag: &str) -> (KeyObs, Option<(V::Sk, V::Pk)>) {
    let (mut obs, kp) = observe_with::<V>(seed, tag, || V::keygen(seed));
    // the candidates ntru_gen went through, reconstructed by running gen_poly (hook) on the same generator stream: ntru_gen draws
    // randomness only there, so candidate i is the (2i-1)-th and 2i-th polynomial of the stream
    use rand::SeedableRng;
    let ncand = obs.heavy["cands"].as_array().map(|a| a.len()).unwrap_or(0);
    let mut rng = rand::rngs::StdRng::from_seed(seed);
    let mut polys = vec![];
    for _ in 0..ncand {
        let f = verif::gen_poly(V::N, &mut rng);
        let g = verif::gen_poly(V::N, &mut rng);
        polys.push(json!({"f":i16s_json(&f),"g":i16s_json(&g)}));
    }
    obs.heavy["cand_polys"] = Value::Array(polys);
    (obs, kp)
}

/// The same for any way of making a key pair (e.g. the public `ntru_gen` on a scripted generator).
pub fn observe_with<V: Fv>(seed: [u8; 32], tag: &str, maker: impl FnOnce() -> (V::Sk, V::Pk)) -> (KeyObs, Option<(V::Sk, V::Pk)>) {
    verif::begin(Plan { record: true, ..Default::default() });
    let kp = guarded(maker);
    let evs = verif::end();
    let cands: Vec<Value> = evs
        .iter()
        .filter_map(|e| match e {
            Event::NtruCandidate { verdict, gamma } => Some(json!({"verdict":verdict,"gamma":f64_words(*gamma)})),
            _ => None,
        })
        .collect();
    let (sk, pk) = match kp {
        Outcome::Ret(k) => k,
        Outcome::Panic(m) => {
            let e = json!({"ev":"key","n":V::N,"seed":bytes_json(&seed),"panic":true,"detail":m,"tag":tag});
            return (KeyObs { heavy: e.clone(), light: json!({"ev":"keylight","n":V::N,"seed":bytes_json(&seed),"panic":true,"tag":tag}), interesting: true }, None);
        }
    };
    let b0 = V::sk_b0(&sk); // [g, -f, G, -F]
    let g = b0[0].clone();
    let f: Vec<i16> = b0[1].iter().map(|x| -x).collect();
    let cg = b0[2].clone();
    let cf: Vec<i16> = b0[3].iter().map(|x| -x).collect();
    let skb = V::sk_to_bytes(&sk);
    let pkb = V::pk_to_bytes(&pk);
    // round trips
    // "equal" includes the signing tree (SecretKey's own == looks at the basis only): leaves and branch polynomials bit for bit
    let tree_bits = |k: &V::Sk| -> Vec<u64> {
        V::sk_tree(k).iter().flat_map(|nd| match nd {
            verif::TreeNode::Branch(l) => l.iter().flat_map(|c| [c.0.to_bits(), c.1.to_bits()]).collect::<Vec<u64>>(),
            verif::TreeNode::Leaf(a, b) => vec![a.0.to_bits(), a.1.to_bits(), b.0.to_bits(), b.1.to_bits()],
        }).collect()
    };
    let (sk_rt, sk_rt_bytes) = match guarded(|| V::sk_from_bytes(&skb)) {
        Outcome::Ret(Ok(k2)) => (if k2 == sk && tree_bits(&k2) == tree_bits(&sk) { "ok-equal" } else { "ok-differs" }, V::sk_to_bytes(&k2)),
        Outcome::Ret(Err(_)) => ("err", vec![]),
        Outcome::Panic(_) => ("panic", vec![]),
    };
    let (pk_rt, pk_rt_bytes) = match guarded(|| V::pk_from_bytes(&pkb)) {
        Outcome::Ret(Ok(k2)) => (if k2 == pk { "ok-equal" } else { "ok-differs" }, V::pk_to_bytes(&k2)),
        Outcome::Ret(Err(_)) => ("err", vec![]),
        Outcome::Panic(_) => ("panic", vec![]),
    };
    // shape of the signing tree in pre-order: branch -> length of its l polynomial, leaf -> 0 (plus: leaf second component is zero)
    let tree = V::sk_tree(&sk);
    let shape: Vec<u64> = tree.iter().map(|nd| match nd { verif::TreeNode::Branch(l) => l.len() as u64, verif::TreeNode::Leaf(_, _) => 0 }).collect();
    let leaf_second_zero = tree.iter().all(|nd| match nd { verif::TreeNode::Leaf(_, b) => b.0 == 0.0 && b.1 == 0.0, _ => true });
    let leaves = V::sk_leaves(&sk);
    let leaves_j: Vec<Value> = leaves.iter().map(|x| f64_words(*x)).collect();
    let heavy = json!({"ev":"key","n":V::N,"seed":bytes_json(&seed),"panic":false,
        "f":i16s_json(&f),"g":i16s_json(&g),"F":i16s_json(&cf),"G":i16s_json(&cg),
        "skb":bytes_json(&skb),"pkb":bytes_json(&pkb),
        "sk_rt":sk_rt,"sk_rt_bytes_equal":sk_rt_bytes == skb,"pk_rt":pk_rt,"pk_rt_bytes_equal":pk_rt_bytes == pkb,
        "leaves":leaves_j,"tree_shape":shape,"leaf_second_zero":leaf_second_zero,"cands":cands,"cand_polys":[],"tag":tag});
    let light = json!({"ev":"keylight","n":V::N,"seed":bytes_json(&seed),"panic":false,
        "maxf":maxabs(&f),"maxg":maxabs(&g),"maxF":maxabs(&cf),"maxG":maxabs(&cg),
        "minf":minval(&f),"ming":minval(&g),"minF":minval(&cf),
        "sklen":skb.len(),"pklen":pkb.len(),"sk_rt":sk_rt,"sk_rt_bytes_equal":sk_rt_bytes == skb,
        "pk_rt":pk_rt,"pk_rt_bytes_equal":pk_rt_bytes == pkb,"ncands":evs.len(),"tag":tag});
    let lim_fg = if V::N == 512 { 31 } else { 15 };
    let interesting = sk_rt != "ok-equal" || pk_rt != "ok-equal" || maxabs(&cf) >= 100 || maxabs(&f) >= lim_fg - 3 || maxabs(&g) >= lim_fg - 3;
    (KeyObs { heavy, light, interesting }, Some((sk, pk)))
}

fn keys_for<V: Fv>(seed: u64, nheavy: usize, nlight: usize, heavy: &mut Shards, light: &mut Shards, verify: &mut Shards) {
    let mut rng = rng_for(seed, &format!("keys-{}", V::N));
    // fixed regression seeds + random seeds
    let mut seeds: Vec<([u8; 32], &str)> = vec![([0u8; 32], "seed-zero"), ([255u8; 32], "seed-ones")];
    {
        let mut s = [0u8; 32];
        s[1] = 235;
        s[31] = 6;
        seeds.push((s, "seed-D6")); // before fix 95c463b this seed gave max|F| = 128 (Falcon-512)
    }
    // seeds whose candidate stream passes through the (F, G) range decision (corpus found offline, see corpus.rs)
    let ncorpus = if nheavy > 8 { crate::corpus::fg_window(V::N).len() } else if V::N == 512 { 4 } else { 2 };
    for (i, tag) in crate::corpus::fg_window(V::N).iter().take(ncorpus) {
        seeds.push((crate::corpus::corpus_seed(*i), tag));
    }
    for (i, tag) in crate::corpus::long_stream(V::N).iter().take(if nheavy > 8 { 3 } else { 1 }) {
        seeds.push((crate::corpus::corpus_seed(*i), tag));
    }
    let nheavy = nheavy.max(seeds.len() + 1);
    while seeds.len() < nheavy {
        seeds.push((rng.gen(), "random"));
    }
    for (s, tag) in seeds.iter().take(nheavy) {
        let (obs, kp) = observe_key::<V>(*s, tag);
        heavy.emit(obs.heavy);
        light.emit(obs.light);
        // C05: the decoded secret key signs messages that verify under the original public key; signature round trip
        if let Some((sk, pk)) = kp {
            let skb = V::sk_to_bytes(&sk);
            if let Ok(sk2) = V::sk_from_bytes(&skb) {
                let msg = b"signed with the decoded key".to_vec();
                if let Outcome::Ret(sig) = guarded(|| V::sign(&msg, &sk2)) {
                    let sigb = V::sig_to_bytes(&sig);
                    verify.emit(honest_event::<V>(&msg, &sigb, &V::pk_to_bytes(&pk), "decoded-key-signs"));
                    let rt = match V::sig_from_bytes(&sigb) {
                        Ok(s2) => s2 == sig && V::sig_to_bytes(&s2) == sigb,
                        Err(_) => false,
                    };
                    light.emit(json!({"ev":"sigrt","n":V::N,"siglen":sigb.len(),"rt_equal":rt,"tag":"sig-roundtrip"}));
                }
            }
            // round trips of objects that have been USED (signed / verified with) before they are compared with their
            // decoded copies, and of decoded copies that are used while the original is not: per-object state (caches)
            // must not leak into equality or into the bytes
            let (sk_fresh, pk_fresh) = (sk.clone(), pk.clone());
            // a clone carries the same signing tree, bit for bit
            {
                let tb = |k: &V::Sk| -> Vec<u64> {
                    V::sk_tree(k).iter().flat_map(|nd| match nd {
                        verif::TreeNode::Branch(l) => l.iter().flat_map(|c| [c.0.to_bits(), c.1.to_bits()]).collect::<Vec<u64>>(),
                        verif::TreeNode::Leaf(a, b) => vec![a.0.to_bits(), a.1.to_bits(), b.0.to_bits(), b.1.to_bits()],
                    }).collect()
                };
                let same = tb(&sk_fresh) == tb(&sk) && sk_fresh == sk && V::sk_to_bytes(&sk_fresh) == V::sk_to_bytes(&sk);
                light.emit(json!({"ev":"sigrt","n":V::N,"siglen":V::SIG_LEN,"rt_equal":same,"tag":"clone-equals-original","detail":"secret key clone: basis, bytes and signing tree"}));
            }
            let msg2 = b"used before the round trip".to_vec();
            let r = guarded(|| {
                let mut failed: Vec<&str> = vec![];
                let sig = V::sign(&msg2, &sk);
                let sig_fresh = sig.clone();
                if !V::verify(&msg2, &sig, &pk) {
                    failed.push("verify");
                }
                if !V::pk_from_bytes(&V::pk_to_bytes(&pk)).map(|k| k == pk).unwrap_or(false) {
                    failed.push("decode(encode(pk)) != pk after pk was used by verify");
                }
                if !V::sk_from_bytes(&V::sk_to_bytes(&sk)).map(|k| k == sk).unwrap_or(false) {
                    failed.push("decode(encode(sk)) != sk after sk was used by sign");
                }
                if !V::sig_from_bytes(&V::sig_to_bytes(&sig)).map(|k| k == sig).unwrap_or(false) {
                    failed.push("decode(encode(sig)) != sig after sig was used by verify");
                }
                if V::pk_to_bytes(&pk) != V::pk_to_bytes(&pk_fresh) || V::sk_to_bytes(&sk) != V::sk_to_bytes(&sk_fresh) || V::sig_to_bytes(&sig) != V::sig_to_bytes(&sig_fresh) {
                    failed.push("bytes of a used object differ from the bytes of its unused clone");
                }
                match (V::pk_from_bytes(&V::pk_to_bytes(&pk_fresh)), V::sk_from_bytes(&V::sk_to_bytes(&sk_fresh)), V::sig_from_bytes(&V::sig_to_bytes(&sig_fresh))) {
                    (Ok(pk2), Ok(sk2), Ok(sig2)) => {
                        let s = V::sign(&msg2, &sk2);
                        if !V::verify(&msg2, &s, &pk2) || !V::verify(&msg2, &sig2, &pk2) {
                            failed.push("verify with decoded copies");
                        }
                        if pk2 != pk_fresh {
                            failed.push("decoded pk, once used, != the original");
                        }
                        if sk2 != sk_fresh {
                            failed.push("decoded sk, once used, != the original");
                        }
                        if sig2 != sig_fresh {
                            failed.push("decoded sig, once used, != the original");
                        }
                    }
                    _ => failed.push("decoding an honest encoding failed"),
                }
                failed.join("; ")
            });
            let (ok, detail) = match r {
                Outcome::Ret(f) => (f.is_empty(), f),
                Outcome::Panic(m) => (false, format!("panic: {}", m)),
            };
            light.emit(json!({"ev":"sigrt","n":V::N,"siglen":V::SIG_LEN,"rt_equal":ok,"tag":"roundtrip-after-use","detail":detail}));
        }
    }
    // key generation on a thread that has just generated a key of the OTHER variant (state sized or filled by the other degree)
    {
        let seeds: Vec<[u8; 32]> = (0..(if nheavy > 8 { 12u8 } else { 5 })).map(|i| [i.wrapping_mul(37).wrapping_add(3); 32]).collect();
        let evs = std::thread::spawn(move || {
            crate::common::install_panic_hook();
            let mut v = vec![];
            for s in seeds {
                if V::N == 512 { let _ = V1024::keygen([s[0] ^ 0x5a; 32]); } else { let _ = V512::keygen([s[0] ^ 0x5a; 32]); }
                let (obs, _) = observe_key::<V>(s, "after-other-variant-keygen");
                v.push((obs.heavy, obs.light));
            }
            v
        }).join().unwrap();
        for (h, l) in evs {
            heavy.emit(h);
            light.emit(l);
        }
    }
    // keys from the other public constructor (operating-system entropy): the same facts, the seed is not known
    for _ in 0..(if nheavy > 8 { 3 } else { 1 }) {
        let (obs, kp) = observe_with::<V>([0u8; 32], "generate-os-entropy", || V::generate());
        heavy.emit(obs.heavy);
        light.emit(obs.light);
        if let Some((sk, pk)) = kp {
            let msg = b"signed with a key from generate()".to_vec();
            if let Outcome::Ret(sig) = guarded(|| V::sign(&msg, &sk)) {
                verify.emit(honest_event::<V>(&msg, &V::sig_to_bytes(&sig), &V::pk_to_bytes(&pk), "generate-key-signs"));
            }
        }
    }
    // decode chains on one thread: decode A, decode B, re-encode A; decode the same bytes twice; a key decoded after a
    // failed decode -- each result must still be the byte-identical key (state leaking between decoder calls)
    {
        let (ka, _) = V::keygen(rng.gen());
        let (kb, _) = V::keygen(rng.gen());
        let (ba, bb) = (V::sk_to_bytes(&ka), V::sk_to_bytes(&kb));
        let mut bad = ba.clone();
        bad[0] ^= 0xff;
        let mut chain_ok = true;
        for step in [&ba, &bb, &ba, &ba, &bad, &bb, &ba] {
            match guarded(|| V::sk_from_bytes(step)) {
                Outcome::Ret(Ok(k)) => chain_ok &= V::sk_to_bytes(&k) == **step && (k == ka || k == kb),
                Outcome::Ret(Err(_)) => chain_ok &= *step == bad,
                Outcome::Panic(_) => chain_ok = false,
            }
        }
        light.emit(json!({"ev":"sigrt","n":V::N,"siglen":V::SIG_LEN,"rt_equal":chain_ok,"tag":"decode-chain"}));
        // every KIND of failing decode (failing early, in the middle, at the very end, on the length) directly before a decode of
        // a valid key: the valid key must come back as itself (scratch state left behind by an error path)
        let wfg = if V::N == 512 { 6 } else { 5 };
        let mut kinds: Vec<(&str, Vec<u8>)> = vec![];
        let mut b = ba.clone();
        b.push(0);
        kinds.push(("one-byte-longer", b));
        let mut b = ba.clone();
        b.pop();
        kinds.push(("one-byte-shorter", b));
        for (name, bit, w) in [("reserved-first-f", 8usize, wfg), ("reserved-last-g", 8 + (2 * V::N - 1) * wfg, wfg), ("reserved-first-F", 8 + 2 * V::N * wfg, 8),
                               ("reserved-last-F", 8 + 2 * V::N * wfg + 8 * (V::N - 1), 8)] {
            let mut b = ba.clone();
            for j in 0..w {
                let p = bit + j;
                if j == 0 { b[p / 8] |= 128 >> (p % 8) } else { b[p / 8] &= !(128 >> (p % 8)) }
            }
            kinds.push((name, b));
        }
        let mut zero_f = ba.clone();
        for p in 8..8 + V::N * wfg {
            zero_f[p / 8] &= !(128 >> (p % 8));
        }
        kinds.push(("f-zero", zero_f));
        for (name, badb) in kinds {
            let r1 = guarded(|| V::sk_from_bytes(&badb).is_ok());
            let ok = match guarded(|| V::sk_from_bytes(&bb)) {
                Outcome::Ret(Ok(k)) => k == kb && V::sk_to_bytes(&k) == bb,
                _ => false,
            } && match guarded(|| V::sk_from_bytes(&ba)) {
                Outcome::Ret(Ok(k)) => k == ka && V::sk_to_bytes(&k) == ba,
                _ => false,
            };
            let detail = format!("after a failing decode ({}; it returned {:?})", name, match r1 { Outcome::Ret(x) => x.to_string(), Outcome::Panic(_) => "panic".into() });
            light.emit(json!({"ev":"sigrt","n":V::N,"siglen":V::SIG_LEN,"rt_equal":ok,"tag":"decode-after-failed-decode","detail":detail}));
        }
        // the same for public keys and signatures
        {
            let (sk, pk) = V::keygen(rng.gen());
            let (_, pk2) = V::keygen(rng.gen());
            let pb = V::pk_to_bytes(&pk);
            let pb2 = V::pk_to_bytes(&pk2);
            let sig = V::sign(b"chain", &sk);
            let sb = V::sig_to_bytes(&sig);
            let mut badp: Vec<Vec<u8>> = vec![];
            let mut b = pb2.clone();
            b.push(7);
            badp.push(b);
            let mut b = pb2.clone();
            let last = b.len() - 1;
            b[last] = 0xff;
            b[last - 1] = 0xff; // last field >= q
            badp.push(b);
            let mut ok = true;
            for b in &badp {
                let _ = guarded(|| V::pk_from_bytes(b).is_ok());
                ok &= matches!(guarded(|| V::pk_from_bytes(&pb)), Outcome::Ret(Ok(k)) if k == pk && V::pk_to_bytes(&k) == pb);
            }
            let mut bads: Vec<Vec<u8>> = vec![];
            let mut b = sb.clone();
            let last = b.len() - 1;
            b[last] |= 1;
            bads.push(b);
            let mut b = sb.clone();
            for x in b.iter_mut().skip(41 + 100) {
                *x = 0;
            }
            bads.push(b);
            for b in &bads {
                let _ = guarded(|| V::sig_from_bytes(b).is_ok());
                ok &= matches!(guarded(|| V::sig_from_bytes(&sb)), Outcome::Ret(Ok(k)) if k == sig && V::sig_to_bytes(&k) == sb);
            }
            light.emit(json!({"ev":"sigrt","n":V::N,"siglen":V::SIG_LEN,"rt_equal":ok,"tag":"decode-after-failed-decode","detail":"public key / signature"}));
        }
    }
    // volume: light events on many seeds in parallel, interesting ones promoted
    let nthreads = 16;
    let mut handles = vec![];
    for t in 0..nthreads {
        let mut trng = rng_for(seed, &format!("keys-light-{}-{}", V::N, t));
        let count = (nlight + nthreads - 1) / nthreads;
        handles.push(std::thread::spawn(move || {
            crate::common::install_panic_hook();
            let mut out = vec![];
            for _ in 0..count {
                let s: [u8; 32] = trng.gen();
                let (obs, _) = observe_key::<V>(s, "volume");
                out.push(obs);
            }
            out
        }));
    }
    let mut promoted = 0;
    for h in handles {
        for obs in h.join().unwrap() {
            light.emit(obs.light);
            if obs.interesting && promoted < 12 {
                heavy.emit(obs.heavy);
                promoted += 1;
            }
        }
    }
}

// ---------------------------------------------------------------- boundary candidates through a scripted generator

const RCDT: [u128; 18] = [
    3024686241123004913666, 1564742784480091954050, 636254429462080897535, 199560484645026482916, 47667343854657281903,
    8595902006365044063, 1163297957344668388, 117656387352093658, 8867391802663976, 496969357462633, 20680885154299,
    638331848991, 14602316184, 247426747, 3104126, 28824, 198, 1,
];

/// Serves scripted bytes (one per generator word, as the crate draws them), then a seeded stream.
pub struct ScriptThenRng {
    pub script: Vec<u8>,
    pub pos: usize,
    pub fallback: rand_chacha::ChaCha20Rng,
}
impl rand::RngCore for ScriptThenRng {
    fn next_u32(&mut self) -> u32 {
        if self.pos < self.script.len() {
            self.pos += 1;
            self.script[self.pos - 1] as u32
        } else {
            self.fallback.next_u32()
        }
    }
    fn next_u64(&mut self) -> u64 {
        self.next_u32() as u64
    }
    fn fill_bytes(&mut self, dest: &mut [u8]) {
        for d in dest.iter_mut() {
            *d = self.next_u32() as u8;
        }
    }
    fn try_fill_bytes(&mut self, dest: &mut [u8]) -> Result<(), rand::Error> {
        self.fill_bytes(dest);
        Ok(())
    }
}

/// The 17 stream bytes that make one sampler_z(0, sigma*, ..) call return z at its first iteration.
fn sample_bytes(z: i64) -> Vec<u8> {
    let (z0, b) = if z >= 1 { (z - 1, 1u8) } else { (-z, 0u8) };
    let u = RCDT[z0 as usize];
    let mut v = u.to_be_bytes()[7..16].to_vec();
    v.push(b);
    v.extend([0u8; 7]);
    v
}

/// Byte script under which gen_poly produces exactly `target` (sums of 4096/n samples each), or None.
fn script_for_poly(target: &[i16]) -> Option<Vec<u8>> {
    let n = target.len();
    let m = (4096 / n) as i64;
    let mut out = Vec::with_capacity(4096 * 17);
    for &c in target {
        let c = c as i64;
        let base = c / m;
        let mut rem = c - base * m;
        for _ in 0..m {
            let mut z = base;
            if rem > 0 {
                z += 1;
                rem -= 1;
            } else if rem < 0 {
                z -= 1;
                rem += 1;
            }
            if !(-17..=18).contains(&z) {
                return None;
            }
            let bytes = sample_bytes(z);
            // selection aid: make sure the real sampler accepts these bytes at once
            let mut r = crate::d_sampler::ScriptRng::new(bytes.clone());
            match guarded(|| verif::sampler_z(0.0, 1.43300980528773, 1.43300980528773 - 0.001, &mut r)) {
                Outcome::Ret(got) if got as i64 == z && r.pos == 17 => {}
                _ => return None,
            }
            out.extend(bytes);
        }
    }
    Some(out)
}

fn scripted_keygen<V: Fv>(f: &[i16], g: &[i16], fallback_seed: u64) -> Option<impl FnOnce() -> (V::Sk, V::Pk)> {
    use rand::SeedableRng;
    let mut script = script_for_poly(f)?;
    script.extend(script_for_poly(g)?);
    let n = f.len();
    Some(move || {
        let mut rng = ScriptThenRng { script, pos: 0, fallback: rand_chacha::ChaCha20Rng::seed_from_u64(fallback_seed) };
        let (f, g, cf, cg) = falcon_rust::math::ntru_gen(n, &mut rng);
        let neg = |p: &falcon_rust::polynomial::Polynomial<i16>| p.coefficients.iter().map(|x| -x).collect::<Vec<i16>>();
        let sk = V::sk_from_b0([g.coefficients.clone(), neg(&f), cg.coefficients.clone(), neg(&cf)]);
        let pk = V::pk_from_sk(&sk);
        (sk, pk)
    })
}

/// Candidates that sit exactly on the decisions of key generation: an f with a zero NTT coefficient at a chosen
/// position (must be discarded: not invertible modulo q) and f, g with a coefficient at / just beyond the edge of
/// the encodable range (just beyond must be discarded).  Built from a real accepted (f, g) so that all the other
/// tests of ntru_gen are likely to pass; whatever key ntru_gen finally returns is recorded and judged by TLC.
fn boundary_keys<V: Fv>(seed: u64, thorough: bool, heavy: &mut Shards, light: &mut Shards) {
    let mut rng = rng_for(seed, &format!("boundary-keys-{}", V::N));
    let n = V::N;
    let q = 12289i64;
    let lim: i16 = if n == 512 { 31 } else { 15 };
    let nbase = if thorough { 3 } else { 1 };
    for bi in 0..nbase {
        let (sk, _) = V::keygen(rng.gen());
        let b0 = V::sk_b0(&sk);
        let g: Vec<i16> = b0[0].clone();
        let f: Vec<i16> = b0[1].iter().map(|x| -x).collect();
        let mut variants: Vec<(String, Vec<i16>, Vec<i16>)> = vec![("scripted-replay".into(), f.clone(), g.clone())];
        // (a) zero NTT coefficient at position k: change f_j by delta with v_k + delta * psi_k^j = 0 (mod q)
        let fq: Vec<i16> = f.iter().map(|&x| ((x as i64 % q + q) % q) as i16).collect();
        let v = verif::ntt_fft(&fq);
        let ks: Vec<usize> = if thorough { vec![0, 1, n / 2, n - 1] } else { vec![0, n - 1] };
        for &k in &ks {
            let mut best: Option<(usize, i64)> = None;
            for j in 0..n {
                let mut e = vec![0i16; n];
                e[j] = 1;
                let w = verif::ntt_fft(&e)[k] as i64; // psi_k^j
                let winv = verif::felt_inverse_or_zero(w as i16) as i64;
                let mut d = (q - v[k] as i64) % q * winv % q;
                if d > q / 2 {
                    d -= q;
                }
                let nv = f[j] as i64 + d;
                if nv.abs() <= lim as i64 && d != 0 && best.map(|b| d.abs() < b.1.abs()).unwrap_or(true) {
                    best = Some((j, d));
                }
            }
            if let Some((j, d)) = best {
                let mut f2 = f.clone();
                f2[j] = (f2[j] as i64 + d) as i16;
                variants.push((format!("scripted-ntt-zero-{}", if k == 0 { "first".to_string() } else if k == n - 1 { "last".into() } else { k.to_string() }), f2, g.clone()));
            }
        }
        // (b) coefficients at and just beyond the edge of the encodable range
        // the edited pair is tuned (selection aid, through the hooks) so that it still passes the invertibility and
        // Gram-Schmidt tests: the range decision is then the only one standing between the candidate and the solver
        let tune = |f0: &Vec<i16>, g0: &Vec<i16>, on_f: bool, j: usize, val: i16| -> Option<(Vec<i16>, Vec<i16>)> {
            let mut f2 = f0.clone();
            let mut g2 = g0.clone();
            if on_f { f2[j] = val } else { g2[j] = val }
            let norm = |a: &Vec<i16>, b: &Vec<i16>| a.iter().chain(b.iter()).map(|&x| (x as i64) * (x as i64)).sum::<i64>();
            for _ in 0..400 {
                let fq: Vec<i16> = f2.iter().map(|&x| ((x as i64 % q + q) % q) as i16).collect();
                let inv_ok = verif::ntt_fft(&fq).iter().all(|&x| x != 0);
                let gs = verif::gram_schmidt_norm_squared(&f2, &g2);
                if inv_ok && gs <= 1.3689 * 12289.0 - 5.0 {
                    return Some((f2, g2));
                }
                // shrinking lowers ||(f,g)||^2 but raises the second Gram-Schmidt quantity: stop when the first is well below
                if (norm(&f2, &g2) as f64) < 1.3689 * 12289.0 * 0.93 {
                    return None;
                }
                // shrink the largest coefficient other than the edited one
                let mut bi = (true, usize::MAX, 0i16);
                for (idx, &c) in f2.iter().enumerate() {
                    if !(on_f && idx == j) && c.abs() > bi.2.abs() { bi = (true, idx, c); }
                }
                for (idx, &c) in g2.iter().enumerate() {
                    if !(!on_f && idx == j) && c.abs() > bi.2.abs() { bi = (false, idx, c); }
                }
                if bi.1 == usize::MAX || bi.2 == 0 { return None; }
                if bi.0 { f2[bi.1] -= bi.2.signum() } else { g2[bi.1] -= bi.2.signum() }
            }
            None
        };
        for &(val, name) in &[(-(lim + 1), "below-min"), (lim + 1, "above-max"), (-lim, "at-min"), (lim, "at-max")] {
            // edit the coefficient that is already closest to the wanted value
            let mut jf: Vec<usize> = (0..n).collect();
            jf.sort_by_key(|&i| (f[i] as i64 - val as i64).abs());
            let mut jg: Vec<usize> = (0..n).collect();
            jg.sort_by_key(|&i| (g[i] as i64 - val as i64).abs());
            if let Some((f2, g2)) = jf.iter().take(6).find_map(|&j| tune(&f, &g, true, j, val)) {
                variants.push((format!("scripted-f-{}", name), f2, g2));
            }
            if thorough || name == "below-min" {
                if let Some((f2, g2)) = jg.iter().take(6).find_map(|&j| tune(&f, &g, false, j, val)) {
                    variants.push((format!("scripted-g-{}", name), f2, g2));
                }
            }
        }
        // (c) Gram-Schmidt norm just above / just below the bound 1.17^2 q = 16822.41...: the first must be discarded
        for &(lo, hi, name) in &[(16822.6f64, 16832.8f64, "gs-just-above"), (16800.0, 16822.2, "gs-just-below")] {
            let mut f2 = f.clone();
            let mut g2 = g.clone();
            let mut found = false;
            for _ in 0..4000 {
                let gs = verif::gram_schmidt_norm_squared(&f2, &g2);
                let fq: Vec<i16> = f2.iter().map(|&x| ((x as i64 % q + q) % q) as i16).collect();
                if gs > lo && gs < hi && verif::ntt_fft(&fq).iter().all(|&x| x != 0) {
                    found = true;
                    break;
                }
                // move the norm towards the window by +-1 steps on random coefficients
                let j = rng.gen_range(0..n);
                let onf = rng.gen::<bool>();
                let c = if onf { f2[j] } else { g2[j] };
                let step: i16 = if gs <= lo { if c >= 0 { 1 } else { -1 } } else if c > 0 { -1 } else if c < 0 { 1 } else { 0 };
                let nc = c + step;
                if nc.abs() <= lim - 1 {
                    if onf { f2[j] = nc } else { g2[j] = nc }
                }
            }
            if found {
                variants.push((format!("scripted-{}", name), f2, g2));
            }
        }
        for (tag, f2, g2) in variants {
            if let Some(maker) = scripted_keygen::<V>(&f2, &g2, seed.wrapping_add(bi as u64)) {
                let (mut obs, _) = observe_with::<V>([bi as u8; 32], &tag, maker);
                // the candidates, reconstructed from an identical copy of the generator (script, then the same seeded stream)
                if let (Some(sf), Some(sg)) = (script_for_poly(&f2), script_for_poly(&g2)) {
                    use rand::SeedableRng;
                    let mut script = sf;
                    script.extend(sg);
                    let mut rng2 = ScriptThenRng { script, pos: 0, fallback: rand_chacha::ChaCha20Rng::seed_from_u64(seed.wrapping_add(bi as u64)) };
                    let ncand = obs.heavy["cands"].as_array().map(|a| a.len()).unwrap_or(0);
                    let mut polys = vec![];
                    for _ in 0..ncand {
                        let f = verif::gen_poly(V::N, &mut rng2);
                        let g = verif::gen_poly(V::N, &mut rng2);
                        polys.push(json!({"f":i16s_json(&f),"g":i16s_json(&g)}));
                    }
                    obs.heavy["cand_polys"] = Value::Array(polys);
                }
                heavy.emit(obs.heavy);
                light.emit(obs.light);
            }
        }
    }
}

/// Valid NTRU keys whose F or G has a coefficient exactly at the edge of the 8-bit range (+127 / -127): from a real key,
/// (F, G) + k (f, g) for a sparse small k keeps f G - g F = q; k is searched so that the extreme coefficient lands on
/// the edge and everything stays representable.  (Generated keys hit these edges for about one seed in several
/// thousand.)  The key object is built with the crate's own `from_b0` (hook) and goes through to_bytes / from_bytes.
/// Valid key material (f, g, F, G) with a coefficient of F or of G exactly at +-127, the edge of what the secret-key format and
/// the reference's import accept: (F, G) of a generated key shifted by small multiples of (f, g).
pub fn edge_valid_b0s<V: Fv>(seed: u64) -> Vec<(String, [Vec<i16>; 4])> {
    let mut rng = rng_for(seed, &format!("edge-valid-keys-{}", V::N));
    let n = V::N;
    let (sk, _) = V::keygen(rng.gen());
    let b0 = V::sk_b0(&sk);
    let g: Vec<i32> = b0[0].iter().map(|&x| x as i32).collect();
    let f: Vec<i32> = b0[1].iter().map(|&x| -(x as i32)).collect();
    let cg: Vec<i32> = b0[2].iter().map(|&x| x as i32).collect();
    let cf: Vec<i32> = b0[3].iter().map(|&x| -(x as i32)).collect();
    let add_shift = |base: &Vec<i32>, p: &Vec<i32>, j: usize, c: i32| -> Vec<i32> {
        // base + c * x^j * p  (negacyclic)
        let mut out = base.clone();
        for i in 0..n {
            let k = i + j;
            if k < n { out[k] += c * p[i] } else { out[k - n] -= c * p[i] }
        }
        out
    };
    let mut outv = vec![];
    let targets: [(&str, bool, i32); 4] = [("G-max-127", true, 127), ("G-min-127", true, -127), ("F-max-127", false, 127), ("F-min-127", false, -127)];
    for (name, on_g, want) in targets {
        let mut found = None;
        'search: for _ in 0..600000 {
            let nnz = rng.gen_range(1..=4);
            let mut f2 = cf.clone();
            let mut g2 = cg.clone();
            for _ in 0..nnz {
                let j = rng.gen_range(0..n);
                let c = *[-2i32, -1, 1, 2].get(rng.gen_range(0..4)).unwrap();
                f2 = add_shift(&f2, &f, j, c);
                g2 = add_shift(&g2, &g, j, c);
            }
            let (mx, mn) = if on_g { (*g2.iter().max().unwrap(), *g2.iter().min().unwrap()) } else { (*f2.iter().max().unwrap(), *f2.iter().min().unwrap()) };
            let hit = if want > 0 { mx == 127 && mn >= -127 } else { mn == -127 && mx <= 127 };
            let others_ok = f2.iter().chain(g2.iter()).all(|&x| x.abs() <= 127);
            if hit && others_ok {
                found = Some((f2, g2));
                break 'search;
            }
        }
        if let Some((f2, g2)) = found {
            let to16 = |v: &Vec<i32>| v.iter().map(|&x| x as i16).collect::<Vec<i16>>();
            let neg16 = |v: &Vec<i32>| v.iter().map(|&x| -(x as i16)).collect::<Vec<i16>>();
            let b = [to16(&g), neg16(&f), to16(&g2), neg16(&f2)];
            outv.push((format!("edge-valid-key-{}", name), b));
        }
    }
    outv
}

fn edge_valid_keys<V: Fv>(seed: u64, heavy: &mut Shards, light: &mut Shards) {
    for (tag, b) in edge_valid_b0s::<V>(seed) {
        let (obs, _) = observe_with::<V>([7u8; 32], &tag, move || {
            let sk = V::sk_from_b0(b);
            let pk = V::pk_from_sk(&sk);
            (sk, pk)
        });
        heavy.emit(obs.heavy);
        light.emit(obs.light);
    }
}

pub fn keys(args: &Args) {
    let seed = args.num("--seed", 1);
    let dir = PathBuf::from(args.get_or("--out", "work/keys"));
    let mut heavy = Shards::create(&dir, "key", args.num("--shards", 12) as usize);
    let mut light = Shards::create(&dir, "keylight", 1);
    let mut verify = Shards::create(&dir, "verify", 4);
    let h512 = args.num("--heavy512", 8) as usize;
    let h1024 = args.num("--heavy1024", 4) as usize;
    let l512 = args.num("--light512", 150) as usize;
    let l1024 = args.num("--light1024", 20) as usize;
    keys_for::<V512>(seed, h512, l512, &mut heavy, &mut light, &mut verify);
    keys_for::<V1024>(seed, h1024, l1024, &mut heavy, &mut light, &mut verify);
    if args.num("--boundary", 1) == 1 {
        boundary_keys::<V512>(seed, args.thorough(), &mut heavy, &mut light);
        boundary_keys::<V1024>(seed, args.thorough(), &mut heavy, &mut light);
        edge_valid_keys::<V512>(seed, &mut heavy, &mut light);
        edge_valid_keys::<V1024>(seed, &mut heavy, &mut light);
    }
    println!("heavy {} light {} verify {}", heavy.finish(), light.finish(), verify.finish());
}

/// Search tool (not a check): seeds whose candidate stream passes through the (F, G) range decision of ntru_gen
/// (tap verdict 5), with the extremes of the rejected solution.  Its output feeds the corpus `FG_WINDOW_SEEDS`.
pub fn fgseeds(args: &Args) {
    let n = args.num("--n", 512) as usize;
    let start = args.num("--start", 0);
    let count = args.num("--count", 1000);
    let nthreads = args.num("--threads", 16);
    let minc = args.num("--minc", 0);
    let mut handles = vec![];
    for t in 0..nthreads {
        handles.push(std::thread::spawn(move || {
            use rand::SeedableRng;
            let mut i = start + t;
            while i < start + count {
                let mut seed = [0u8; 32];
                seed[..8].copy_from_slice(&i.to_le_bytes());
                seed[31] = 0x46;
                verif::begin(Plan { record: true, ..Default::default() });
                if n == 512 {
                    let _ = V512::keygen(seed);
                } else {
                    let _ = V1024::keygen(seed);
                }
                let evs = verif::end();
                let verdicts: Vec<u8> = evs.iter().filter_map(|e| match e { Event::NtruCandidate { verdict, .. } => Some(*verdict as u8), _ => None }).collect();
                if minc > 0 && verdicts.len() as u64 >= minc {
                    println!("{{\"n\":{},\"seed\":{},\"ncand\":{}}}", n, i, verdicts.len());
                }
                if minc == 0 && (verdicts.contains(&5) || verdicts.contains(&4)) {
                    let mut rng = rand::rngs::StdRng::from_seed(seed);
                    for v in &verdicts {
                        let f = verif::gen_poly(n, &mut rng);
                        let g = verif::gen_poly(n, &mut rng);
                        if *v == 5 {
                            let f32: Vec<i32> = f.iter().map(|&x| x as i32).collect();
                            let g32: Vec<i32> = g.iter().map(|&x| x as i32).collect();
                            if let Some((cf, cg)) = verif::ntru_solve_entrypoint(&f32, &g32) {
                                println!("{{\"n\":{},\"seed\":{},\"verdicts\":{:?},\"minF\":{},\"maxF\":{},\"minG\":{},\"maxG\":{}}}", n, i, verdicts,
                                         cf.iter().min().unwrap(), cf.iter().max().unwrap(), cg.iter().min().unwrap(), cg.iter().max().unwrap());
                            }
                        } else if *v == 4 {
                            println!("{{\"n\":{},\"seed\":{},\"verdicts\":{:?},\"minf\":{},\"maxf\":{},\"ming\":{},\"maxg\":{}}}", n, i, verdicts,
                                     f.iter().min().unwrap(), f.iter().max().unwrap(), g.iter().min().unwrap(), g.iter().max().unwrap());
                        }
                    }
                }
                i += nthreads;
            }
        }));
    }
    for h in handles {
        h.join().unwrap();
    }
}

/// Key pairs returned by the public `ntru_gen` when its FIRST candidate (scripted generator) is a real key's (f, g) with f edited so
/// that one chosen NTT coefficient is zero (not invertible modulo q: must be discarded).  For drivers that need keys of that class
/// (C01: signatures under whatever key is returned must verify).
pub fn scripted_ntt_zero_keypairs<V: Fv>(seed: u64, slots: &[usize]) -> Vec<(String, V::Sk, V::Pk)> {
    let mut rng = rng_for(seed, &format!("scripted-ntt-zero-{}", V::N));
    let n = V::N;
    let q = 12289i64;
    let lim: i16 = if n == 512 { 31 } else { 15 };
    let mut out = vec![];
    // several base keys: the edited candidate must also get past the other tests of ntru_gen for the invertibility decision to matter
    for base in 0..3u64 {
    let (sk, _) = V::keygen(rng.gen());
    let b0 = V::sk_b0(&sk);
    let g: Vec<i16> = b0[0].clone();
    let f: Vec<i16> = b0[1].iter().map(|x| -x).collect();
    let fq: Vec<i16> = f.iter().map(|&x| ((x as i64 % q + q) % q) as i16).collect();
    let v = verif::ntt_fft(&fq);
    for &k in slots {
        let mut best: Option<(usize, i64)> = None;
        for j in 0..n {
            let mut e = vec![0i16; n];
            e[j] = 1;
            let w = verif::ntt_fft(&e)[k] as i64;
            let winv = verif::felt_inverse_or_zero(w as i16) as i64;
            let mut d = (q - v[k] as i64) % q * winv % q;
            if d > q / 2 {
                d -= q;
            }
            let nv = f[j] as i64 + d;
            if nv.abs() <= lim as i64 && d != 0 && best.map(|b| d.abs() < b.1.abs()).unwrap_or(true) {
                best = Some((j, d));
            }
        }
        if let Some((j, d)) = best {
            let mut f2 = f.clone();
            f2[j] = (f2[j] as i64 + d) as i16;
            if let Some(maker) = scripted_keygen::<V>(&f2, &g, seed ^ k as u64 ^ (base << 20)) {
                if let Outcome::Ret((sk, pk)) = guarded(maker) {
                    out.push((format!("scripted-key-ntt-zero-slot-{}", k), sk, pk));
                }
            }
        }
    }
    }
    out
}
