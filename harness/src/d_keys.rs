//! Key events for C04 (valid NTRU trapdoor, leaves in range) and C05 (fixed sizes, exact round trip).
use crate::common::*;
use crate::d_verify::honest_event;
use crate::variant::*;
use falcon_rust::verif::{self, Event, Plan};
use rand::Rng;
use serde_json::{json, Value};
use std::path::PathBuf;

pub struct KeyObs {
    pub heavy: Value,
    pub light: Value,
    pub interesting: bool,
}

fn maxabs(v: &[i16]) -> i64 {
    v.iter().map(|x| (*x as i64).abs()).max().unwrap_or(0)
}
fn minval(v: &[i16]) -> i64 {
    v.iter().map(|x| *x as i64).min().unwrap_or(0)
}

/// Generate a key from a seed and observe everything C04 / C05 talk about.
pub fn observe_key<V: Fv>(seed: [u8; 32], tag: &str) -> (KeyObs, Option<(V::Sk, V::Pk)>) {
    verif::begin(Plan { record: true, ..Default::default() });
    let kp = guarded(|| V::keygen(seed));
    let evs = verif::end();
    let cands: Vec<Value> = evs
        .iter()
        .filter_map(|e| match e {
            Event::NtruCandidate { verdict, gamma } => Some(json!({"verdict":verdict,"gamma":f64_words(*gamma)})),
            _ => None,
        })
        .collect();
    let (sk, pk) = match kp {
        Outcome::Ret(k) => k,
        Outcome::Panic(m) => {
            let e = json!({"ev":"key","n":V::N,"seed":bytes_json(&seed),"panic":true,"detail":m,"tag":tag});
            return (KeyObs { heavy: e.clone(), light: json!({"ev":"keylight","n":V::N,"seed":bytes_json(&seed),"panic":true,"tag":tag}), interesting: true }, None);
        }
    };
    let b0 = V::sk_b0(&sk); // [g, -f, G, -F]
    let g = b0[0].clone();
    let f: Vec<i16> = b0[1].iter().map(|x| -x).collect();
    let cg = b0[2].clone();
    let cf: Vec<i16> = b0[3].iter().map(|x| -x).collect();
    let skb = V::sk_to_bytes(&sk);
    let pkb = V::pk_to_bytes(&pk);
    // round trips
    let (sk_rt, sk_rt_bytes) = match guarded(|| V::sk_from_bytes(&skb)) {
        Outcome::Ret(Ok(k2)) => (if k2 == sk { "ok-equal" } else { "ok-differs" }, V::sk_to_bytes(&k2)),
        Outcome::Ret(Err(_)) => ("err", vec![]),
        Outcome::Panic(_) => ("panic", vec![]),
    };
    let (pk_rt, pk_rt_bytes) = match guarded(|| V::pk_from_bytes(&pkb)) {
        Outcome::Ret(Ok(k2)) => (if k2 == pk { "ok-equal" } else { "ok-differs" }, V::pk_to_bytes(&k2)),
        Outcome::Ret(Err(_)) => ("err", vec![]),
        Outcome::Panic(_) => ("panic", vec![]),
    };
    let leaves = V::sk_leaves(&sk);
    let leaves_j: Vec<Value> = leaves.iter().map(|x| f64_words(*x)).collect();
    let heavy = json!({"ev":"key","n":V::N,"seed":bytes_json(&seed),"panic":false,
        "f":i16s_json(&f),"g":i16s_json(&g),"F":i16s_json(&cf),"G":i16s_json(&cg),
        "skb":bytes_json(&skb),"pkb":bytes_json(&pkb),
        "sk_rt":sk_rt,"sk_rt_bytes_equal":sk_rt_bytes == skb,"pk_rt":pk_rt,"pk_rt_bytes_equal":pk_rt_bytes == pkb,
        "leaves":leaves_j,"cands":cands,"tag":tag});
    let light = json!({"ev":"keylight","n":V::N,"seed":bytes_json(&seed),"panic":false,
        "maxf":maxabs(&f),"maxg":maxabs(&g),"maxF":maxabs(&cf),"maxG":maxabs(&cg),
        "minf":minval(&f),"ming":minval(&g),"minF":minval(&cf),
        "sklen":skb.len(),"pklen":pkb.len(),"sk_rt":sk_rt,"sk_rt_bytes_equal":sk_rt_bytes == skb,
        "pk_rt":pk_rt,"pk_rt_bytes_equal":pk_rt_bytes == pkb,"ncands":evs.len(),"tag":tag});
    let lim_fg = if V::N == 512 { 31 } else { 15 };
    let interesting = sk_rt != "ok-equal" || pk_rt != "ok-equal" || maxabs(&cf) >= 100 || maxabs(&f) >= lim_fg - 3 || maxabs(&g) >= lim_fg - 3;
    (KeyObs { heavy, light, interesting }, Some((sk, pk)))
}

fn keys_for<V: Fv>(seed: u64, nheavy: usize, nlight: usize, heavy: &mut Shards, light: &mut Shards, verify: &mut Shards) {
    let mut rng = rng_for(seed, &format!("keys-{}", V::N));
    // fixed regression seeds + random seeds
    let mut seeds: Vec<([u8; 32], &str)> = vec![([0u8; 32], "seed-zero"), ([255u8; 32], "seed-ones")];
    {
        let mut s = [0u8; 32];
        s[1] = 235;
        s[31] = 6;
        seeds.push((s, "seed-D6")); // before fix 95c463b this seed gave max|F| = 128 (Falcon-512)
    }
    while seeds.len() < nheavy {
        seeds.push((rng.gen(), "random"));
    }
    for (s, tag) in seeds.iter().take(nheavy) {
        let (obs, kp) = observe_key::<V>(*s, tag);
        heavy.emit(obs.heavy);
        light.emit(obs.light);
        // C05: the decoded secret key signs messages that verify under the original public key; signature round trip
        if let Some((sk, pk)) = kp {
            let skb = V::sk_to_bytes(&sk);
            if let Ok(sk2) = V::sk_from_bytes(&skb) {
                let msg = b"signed with the decoded key".to_vec();
                if let Outcome::Ret(sig) = guarded(|| V::sign(&msg, &sk2)) {
                    let sigb = V::sig_to_bytes(&sig);
                    verify.emit(honest_event::<V>(&msg, &sigb, &V::pk_to_bytes(&pk), "decoded-key-signs"));
                    let rt = match V::sig_from_bytes(&sigb) {
                        Ok(s2) => s2 == sig && V::sig_to_bytes(&s2) == sigb,
                        Err(_) => false,
                    };
                    light.emit(json!({"ev":"sigrt","n":V::N,"siglen":sigb.len(),"rt_equal":rt,"tag":"sig-roundtrip"}));
                }
            }
        }
    }
    // volume: light events on many seeds in parallel, interesting ones promoted
    let nthreads = 16;
    let mut handles = vec![];
    for t in 0..nthreads {
        let mut trng = rng_for(seed, &format!("keys-light-{}-{}", V::N, t));
        let count = (nlight + nthreads - 1) / nthreads;
        handles.push(std::thread::spawn(move || {
            crate::common::install_panic_hook();
            let mut out = vec![];
            for _ in 0..count {
                let s: [u8; 32] = trng.gen();
                let (obs, _) = observe_key::<V>(s, "volume");
                out.push(obs);
            }
            out
        }));
    }
    let mut promoted = 0;
    for h in handles {
        for obs in h.join().unwrap() {
            light.emit(obs.light);
            if obs.interesting && promoted < 12 {
                heavy.emit(obs.heavy);
                promoted += 1;
            }
        }
    }
}

pub fn keys(args: &Args) {
    let seed = args.num("--seed", 1);
    let dir = PathBuf::from(args.get_or("--out", "work/keys"));
    let mut heavy = Shards::create(&dir, "key", args.num("--shards", 12) as usize);
    let mut light = Shards::create(&dir, "keylight", 1);
    let mut verify = Shards::create(&dir, "verify", 4);
    let h512 = args.num("--heavy512", 8) as usize;
    let h1024 = args.num("--heavy1024", 4) as usize;
    let l512 = args.num("--light512", 150) as usize;
    let l1024 = args.num("--light1024", 20) as usize;
    keys_for::<V512>(seed, h512, l512, &mut heavy, &mut light, &mut verify);
    keys_for::<V1024>(seed, h1024, l1024, &mut heavy, &mut light, &mut verify);
    println!("heavy {} light {} verify {}", heavy.finish(), light.finish(), verify.finish());
}
