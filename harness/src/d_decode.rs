//! Decoder drivers (C03, C05, C06): from_bytes of the three object types on constructed families.
use crate::common::*;
use crate::craft::*;
use crate::variant::*;
use rand::{Rng, RngCore};
use serde_json::{json, Value};
use std::path::PathBuf;

thread_local! {
    /// an honest (message, signature, public key) of the variant, used to call verify with every decoded pk / signature
    static HONEST: std::cell::RefCell<std::collections::HashMap<usize, (Vec<u8>, Vec<u8>, Vec<u8>)>> = std::cell::RefCell::new(Default::default());
}

fn honest_triple<V: Fv>() -> (Vec<u8>, Vec<u8>, Vec<u8>) {
    HONEST.with(|h| {
        h.borrow_mut()
            .entry(V::N)
            .or_insert_with(|| {
                let (sk, pk) = V::keygen([9u8; 32]);
                let msg = b"totality of verify".to_vec();
                let sig = V::sig_to_bytes(&V::sign(&msg, &sk));
                (msg, sig, V::pk_to_bytes(&pk))
            })
            .clone()
    })
}

/// C03: for every decodable public key / signature, verify returns a boolean (recorded as "true" / "false" / "panic" / "na").
fn verify_with_decoded<V: Fv>(ty: &str, b: &[u8]) -> &'static str {
    let (msg, hsig, hpk) = honest_triple::<V>();
    let r = match ty {
        "pk" => guarded(|| match (V::pk_from_bytes(b), V::sig_from_bytes(&hsig)) {
            (Ok(p), Ok(s)) => Some(V::verify(&msg, &s, &p)),
            _ => None,
        }),
        "sig" => guarded(|| match (V::pk_from_bytes(&hpk), V::sig_from_bytes(b)) {
            (Ok(p), Ok(s)) => Some(V::verify(&msg, &s, &p)),
            _ => None,
        }),
        _ => return "na",
    };
    match r {
        Outcome::Ret(Some(true)) => "true",
        Outcome::Ret(Some(false)) => "false",
        Outcome::Ret(None) => "na",
        Outcome::Panic(_) => "panic",
    }
}

pub fn decode_event<V: Fv>(ty: &str, b: &[u8], tag: &str) -> Value {
    let (res, reenc, detail) = match ty {
        "pk" => match guarded(|| V::pk_from_bytes(b).map(|k| V::pk_to_bytes(&k))) {
            Outcome::Ret(Ok(r)) => ("ok", r, String::new()),
            Outcome::Ret(Err(e)) => ("err", vec![], e),
            Outcome::Panic(m) => ("panic", vec![], m),
        },
        "sk" => match guarded(|| V::sk_from_bytes(b).map(|k| V::sk_to_bytes(&k))) {
            Outcome::Ret(Ok(r)) => ("ok", r, String::new()),
            Outcome::Ret(Err(e)) => ("err", vec![], e),
            Outcome::Panic(m) => ("panic", vec![], m),
        },
        _ => match guarded(|| V::sig_from_bytes(b).map(|k| V::sig_to_bytes(&k))) {
            Outcome::Ret(Ok(r)) => ("ok", r, String::new()),
            Outcome::Ret(Err(e)) => ("err", vec![], e),
            Outcome::Panic(m) => ("panic", vec![], m),
        },
    };
    let vres = if res == "ok" { verify_with_decoded::<V>(ty, b) } else { "na" };
    json!({"ev":"decode","type":ty,"n":V::N,"b":bytes_json(b),"res":res,"reenc":bytes_json(&reenc),"verify":vres,"tag":tag,"detail":detail})
}

fn set_bits(b: &mut [u8], start: usize, w: usize, v: u32) {
    for j in 0..w {
        let bit = start + j;
        let on = (v >> (w - 1 - j)) & 1 == 1;
        if on {
            b[bit / 8] |= 128 >> (bit % 8);
        } else {
            b[bit / 8] &= !(128 >> (bit % 8));
        }
    }
}

pub fn decoder_families<V: Fv, W: Fv>(seed: u64, thorough: bool, out: &mut Shards) {
    let mut rng = rng_for(seed, &format!("decode-{}", V::N));
    let (sk, pk) = V::keygen(rng.gen());
    let sig = V::sign(b"decode", &sk);
    let honest: Vec<(&str, Vec<u8>, usize)> = vec![
        ("pk", V::pk_to_bytes(&pk), V::PK_LEN),
        ("sk", V::sk_to_bytes(&sk), V::SK_LEN),
        ("sig", V::sig_to_bytes(&sig), V::SIG_LEN),
    ];
    let other_len = [("pk", W::PK_LEN), ("sk", W::SK_LEN), ("sig", W::SIG_LEN)];
    // genuine objects of the OTHER variant handed to this variant's decoders (complete and well-formed for the other parameter set)
    {
        let (wsk, wpk) = W::keygen(rng.gen());
        let wsig = W::sign(b"decode", &wsk);
        out.emit(decode_event::<V>("pk", &W::pk_to_bytes(&wpk), "other-variant-genuine"));
        out.emit(decode_event::<V>("sk", &W::sk_to_bytes(&wsk), "other-variant-genuine"));
        out.emit(decode_event::<V>("sig", &W::sig_to_bytes(&wsig), "other-variant-genuine"));
    }
    let n = V::N;
    for (ti, (ty, hb, len)) in honest.iter().enumerate() {
        out.emit(decode_event::<V>(ty, hb, "honest"));
        // every header byte
        let step = if thorough { 1 } else { 1 };
        for h in (0..256usize).step_by(step) {
            let mut b = hb.clone();
            b[0] = h as u8;
            out.emit(decode_event::<V>(ty, &b, "header"));
        }
        // lengths
        // (also: the right encoding followed by 2^j, 8192 k extra bytes -- a length or bit count kept in a narrow integer type)
        let mut lens2 = vec![0usize, 1, 2, len - 1, len + 1, other_len[ti].1, 2 * len, len + 2, len + 31, len + 32, len + 255, len + 256, len + 4096, len + 8191,
                             len + 8192, len + 8193, len + 16384, len + 24576, len + 65536];
        if thorough {
            lens2.extend([len + 4, len + 8, len + 16, len + 64, len + 128, len + 512, len + 1024, len + 2048, len + 32768, len + 131072]);
        }
        for &l2 in &lens2 {
            let mut b = hb.clone();
            b.resize(l2, 0);
            out.emit(decode_event::<V>(ty, &b, "length"));
            if l2 == other_len[ti].1 {
                // the other variant's length with the other variant's header
                let mut b2 = b.clone();
                b2[0] = (b2[0] & 0xf0) | W::LOGN;
                out.emit(decode_event::<V>(ty, &b2, "other-variant"));
            }
        }
        // right length, this header, random body
        for _ in 0..(if thorough { 30 } else { 4 }) {
            let mut b = vec![0u8; *len];
            rng.fill_bytes(&mut b);
            b[0] = hb[0];
            out.emit(decode_event::<V>(ty, &b, "random-body"));
        }
        // zeros / ones
        let mut b = vec![0u8; *len];
        b[0] = hb[0];
        out.emit(decode_event::<V>(ty, &b, "zero-body"));
        let mut b = vec![255u8; *len];
        b[0] = hb[0];
        out.emit(decode_event::<V>(ty, &b, "ones-body"));
    }
    // public-key coefficient fields at the range edge
    let pkb = &honest[0].1;
    for &i in &[0usize, 1, n / 2, n - 1] {
        for &val in &[0u32, 12288, 12289, 12290, 16383, 8192] {
            let mut b = pkb.clone();
            set_bits(&mut b, 8 + 14 * i, 14, val);
            out.emit(decode_event::<V>("pk", &b, "pk-field"));
        }
    }
    // secret-key fields: reserved pattern and extreme legal values in f, g, F
    let skb = &honest[1].1;
    let wfg = if n == 512 { 6 } else { 5 };
    let polys = [(8usize, wfg, "f"), (8 + n * wfg, wfg, "g"), (8 + 2 * n * wfg, 8usize, "F")];
    for &(start, w, _name) in &polys {
        for &i in &[0usize, n / 3, n - 1] {
            let reserved = 1u32 << (w - 1);
            for &val in &[reserved, reserved + 1, reserved - 1, 0, (1 << w) - 1] {
                let mut b = skb.clone();
                set_bits(&mut b, start + w * i, w, val);
                out.emit(decode_event::<V>("sk", &b, "sk-field"));
            }
        }
    }
    // lane sweeps: the edited field at every position of the first and the last 8 coefficients (an unrolled decoder handles 4 or 8
    // fields per group of bytes; a slip in one lane shows only when the edited field sits in that lane)
    for i in (0..8).chain(n - 8..n) {
        for &val in &[12289u32, 16383] {
            let mut b = pkb.clone();
            set_bits(&mut b, 8 + 14 * i, 14, val);
            out.emit(decode_event::<V>("pk", &b, "pk-field-lane"));
        }
        for &(start, w, _name) in &polys {
            let mut b = skb.clone();
            set_bits(&mut b, start + w * i, w, 1u32 << (w - 1));
            out.emit(decode_event::<V>("sk", &b, "sk-field-lane"));
        }
    }
    // secret keys whose f has SOME zero NTT coefficients (not all): f = 1 + x^(n/2) vanishes at half of the roots
    {
        let mut fz = vec![0i16; n];
        fz[0] = 1;
        fz[n / 2] = 1;
        let one = { let mut v = vec![0i16; n]; v[0] = 1; v };
        let g: Vec<i16> = (0..n).map(|i| ((i * 7) % 5) as i16 - 2).collect();
        out.emit(decode_event::<V>("sk", &sk_bytes(&fz, &g, &one, V::LOGN, wfg, 8), "sk-f-partly-zero-ntt"));
        out.emit(decode_event::<V>("sk", &sk_bytes(&g, &fz, &fz, V::LOGN, wfg, 8), "sk-g-partly-zero-ntt"));
    }
    // secret keys with a non-invertible f (all-zero f; f = 2 everywhere is fine) and with f = g
    {
        let zero = vec![0i16; n];
        let one = { let mut v = vec![0i16; n]; v[0] = 1; v };
        out.emit(decode_event::<V>("sk", &sk_bytes(&zero, &one, &zero, V::LOGN, wfg, 8), "sk-f-zero"));
        out.emit(decode_event::<V>("sk", &sk_bytes(&one, &one, &one, V::LOGN, wfg, 8), "sk-unit"));
    }
    // signature: salt/body arbitrary, only framing matters
    let sgb = &honest[2].1;
    for _ in 0..(if thorough { 10 } else { 2 }) {
        let mut b = sgb.clone();
        let k = rng.gen_range(1..b.len());
        b[k] ^= 1 << rng.gen_range(0..8);
        out.emit(decode_event::<V>("sig", &b, "sig-bitflip"));
    }
}

/// verify on an honest (or at least decodable) signature under conditions that stress its own buffers: very long messages, and
/// salt || message strings whose SHAKE stream has unusually many rejected chunks (found by a native search).  Recorded as decode
/// events of the signature with the outcome of THAT verify call; a panic never conforms.
pub fn verify_totality<V: Fv>(seed: u64, thorough: bool, out: &mut Shards) {
    use sha3::digest::{ExtendableOutput, Update, XofReader};
    let (sk, pk) = V::keygen([11u8; 32]);
    let outcome = |msg: &[u8], sigb: &[u8]| -> &'static str {
        match guarded(|| V::sig_from_bytes(sigb).map(|s| V::verify(msg, &s, &pk))) {
            Outcome::Ret(Ok(true)) => "true",
            Outcome::Ret(Ok(false)) => "false",
            Outcome::Ret(Err(_)) => "na",
            Outcome::Panic(_) => "panic",
        }
    };
    let mut lens = vec![4096usize, 65495, 65496, 65497, 1 << 20];
    if thorough {
        lens.extend([65535, 65536, 65537, 1 << 24]);
    }
    for l in lens {
        let msg: Vec<u8> = (0..l).map(|i| (i * 131 % 251) as u8).collect();
        let sigb = match guarded(|| V::sig_to_bytes(&V::sign(&msg, &sk))) {
            Outcome::Ret(b) => b,
            Outcome::Panic(_) => V::sig_to_bytes(&V::sign(b"x", &sk)),
        };
        let mut ev = decode_event::<V>("sig", &sigb, "verify-long-message");
        ev["verify"] = json!(outcome(&msg, &sigb));
        ev["detail"] = json!(format!("message of {} bytes", l));
        out.emit(ev);
    }
    // most rejected chunks
    let hsig = V::sig_to_bytes(&V::sign(b"body donor", &sk));
    let mut best: (usize, Vec<u8>) = (0, vec![]);
    for ctr in 0..(if thorough { 3_000_000u64 } else { 200_000 }) {
        let s = format!("most-rejects-verify-{:020}-{:020}-{}", seed, ctr, V::N).into_bytes();
        let mut h = sha3::Shake256::default();
        h.update(&s);
        let mut rd = h.finalize_xof();
        let (mut got, mut rej) = (0usize, 0usize);
        let mut buf = [0u8; 2];
        while got < V::N {
            rd.read(&mut buf);
            if (((buf[0] as u32) << 8) | buf[1] as u32) < 61445 { got += 1 } else { rej += 1 }
        }
        if rej > best.0 {
            best = (rej, s);
        }
    }
    for (i, tag) in crate::corpus::H2P_EXTREME.iter() {
        let mut sigb = hsig.clone();
        sigb[1..41].copy_from_slice(&crate::corpus::h2p_salt(*i));
        let mut ev = decode_event::<V>("sig", &sigb, "verify-extreme-hash-stream");
        ev["verify"] = json!(outcome(crate::corpus::H2P_MSG, &sigb));
        ev["detail"] = json!(tag);
        out.emit(ev);
    }
    let mut sigb = hsig.clone();
    sigb[1..41].copy_from_slice(&best.1[..40]);
    let mut ev = decode_event::<V>("sig", &sigb, "verify-most-rejected-chunks");
    ev["verify"] = json!(outcome(&best.1[40..], &sigb));
    ev["detail"] = json!(format!("{} rejected chunks", best.0));
    out.emit(ev);
}

/// Native volume fuzz of the three decoders (and re-encoding on acceptance): summary event.
pub fn decoder_bulk<V: Fv>(seed: u64, cases: u64, out: &mut Shards) {
    let mut rng = rng_for(seed, &format!("decode-bulk-{}", V::N));
    let mut panics = 0u64;
    let mut noncanon = 0u64;
    let mut accepted = 0u64;
    let lens = [V::PK_LEN, V::SK_LEN, V::SIG_LEN];
    let hdrs = [V::LOGN, 0x50 | V::LOGN, V::SIG_HDR];
    for i in 0..cases {
        let t = (i % 3) as usize;
        let mut b = vec![0u8; if i % 17 == 0 { rng.gen_range(0..3000) } else { lens[t] }];
        rng.fill_bytes(&mut b);
        if !b.is_empty() && i % 5 != 0 {
            b[0] = hdrs[t];
        }
        if t == 0 && i % 2 == 0 {
            // make most 14-bit fields small so that in-range keys occur
            for k in 1..b.len() {
                if k % 7 != 3 {
                    b[k] &= 0x5f;
                }
            }
        }
        if t == 0 && i % 4 == 1 && b.len() == lens[0] {
            // every 14-bit field drawn below q (one in 64 cases: one field anywhere in [0, 2^14)): accepted keys are plentiful
            for k in 0..V::N {
                let v = if i % 256 == 1 && k == (i as usize / 256) % V::N { rng.gen_range(0..16384u32) } else { rng.gen_range(0..12289u32) };
                set_bits(&mut b, 8 + 14 * k, 14, v);
            }
        }
        if t == 1 && i % 4 == 1 && b.len() == lens[1] {
            // secret-key fields drawn among the non-reserved patterns (one in 64 cases: one field fully random)
            let wfg = if V::N == 512 { 6 } else { 5 };
            let mut pos = 8;
            for (w, cnt) in [(wfg, 2 * V::N), (8usize, V::N)] {
                for k in 0..cnt {
                    let mut v = rng.gen_range(0..(1u32 << w));
                    if v == 1 << (w - 1) && !(i % 256 == 1 && k == (i as usize / 256) % cnt) {
                        v = 0;
                    }
                    set_bits(&mut b, pos, w, v);
                    pos += w;
                }
            }
        }
        let ty = ["pk", "sk", "sig"][t];
        let ev = decode_event::<V>(ty, &b, "bulk-anomaly");
        match ev["res"].as_str().unwrap() {
            "panic" => {
                panics += 1;
                if panics <= 3 {
                    out.emit(ev);
                }
            }
            "ok" => {
                accepted += 1;
                if ev["reenc"] != ev["b"] {
                    noncanon += 1;
                    if noncanon <= 3 {
                        out.emit(ev);
                    }
                }
            }
            _ => {}
        }
    }
    out.emit(json!({"ev":"bulk","cases":cases,"panics":panics,"noncanonical":noncanon,"accepted":accepted,"tag":"bulk","n":V::N}));
}

pub fn decoders(args: &Args) {
    let seed = args.num("--seed", 1);
    let dir = PathBuf::from(args.get_or("--out", "work/decode"));
    let mut out = Shards::create(&dir, "decode", args.num("--shards", 12) as usize);
    decoder_families::<V512, V1024>(seed, args.thorough(), &mut out);
    decoder_families::<V1024, V512>(seed, args.thorough(), &mut out);
    verify_totality::<V512>(seed, args.thorough(), &mut out);
    verify_totality::<V1024>(seed, args.thorough(), &mut out);
    let bulk = args.num("--bulk", 20000);
    decoder_bulk::<V512>(seed, bulk, &mut out);
    decoder_bulk::<V1024>(seed, bulk, &mut out);
    println!("events {}", out.finish());
}
