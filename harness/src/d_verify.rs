//! Heavy "verify" events for C01 / C02 (and reused by C05, C16): everything TLC needs to recompute
//! the verdict from bytes alone.
use crate::common::*;
use crate::craft::*;
use crate::variant::*;
use falcon_rust::verif;
use rand::{Rng, RngCore};
use serde_json::{json, Value};

/// Run the real decoders and verify on raw bytes and record what happened.
pub fn verify_event<V: Fv>(msg: &[u8], sigb: &[u8], pkb: &[u8], tag: &str) -> Value {
    let sig = guarded(|| V::sig_from_bytes(sigb));
    let pk = guarded(|| V::pk_from_bytes(pkb));
    let (sig_ok, pk_ok, res, detail) = match (&sig, &pk) {
        (Outcome::Panic(p), _) | (_, Outcome::Panic(p)) => (false, false, "panic".to_string(), p.clone()),
        (Outcome::Ret(s), Outcome::Ret(p)) => {
            let res = match (s, p) {
                (Ok(s), Ok(p)) => match guarded(|| V::verify(msg, s, p)) {
                    Outcome::Ret(true) => ("true".to_string(), String::new()),
                    Outcome::Ret(false) => ("false".to_string(), String::new()),
                    Outcome::Panic(m) => ("panic".to_string(), m),
                },
                _ => ("na".to_string(), String::new()),
            };
            (s.is_ok(), p.is_ok(), res.0, res.1)
        }
    };
    json!({"ev":"verify","n":V::N,"msg":bytes_json(msg),"sig":bytes_json(sigb),"pk":bytes_json(pkb),
           "sig_ok":sig_ok,"pk_ok":pk_ok,"res":res,"tag":tag,"detail":detail,"honest":false})
}

/// A verify event for a signature that `sign` itself returned under the matching key: the trace
/// spec additionally demands acceptance (C01).
pub fn honest_event<V: Fv>(msg: &[u8], sigb: &[u8], pkb: &[u8], tag: &str) -> Value {
    let mut e = verify_event::<V>(msg, sigb, pkb, tag);
    e["honest"] = Value::Bool(true);
    e
}

fn msg_of_len(rng: &mut impl RngCore, len: usize) -> Vec<u8> {
    let mut m = vec![0u8; len];
    rng.fill_bytes(&mut m);
    m
}

fn flip(b: &[u8], bit: usize) -> Vec<u8> {
    let mut v = b.to_vec();
    v[bit / 8] ^= 128 >> (bit % 8);
    v
}

/// index of the last set bit of the signature (end of the last coefficient)
fn last_set_bit(b: &[u8]) -> usize {
    for i in (0..b.len() * 8).rev() {
        if b[i / 8] & (128 >> (i % 8)) != 0 {
            return i;
        }
    }
    0
}

pub fn body_from_coeffs_raw(coeffs: &[(bool, u32, usize)], len: usize) -> Option<Vec<u8>> {
    let mut bits = vec![];
    for &(s, low, run) in coeffs {
        push_coeff_raw(&mut bits, s, low, run);
    }
    if bits.len() > len * 8 {
        return None;
    }
    Some(bits_to_bytes(&bits, len))
}

fn sig_bytes<V: Fv>(salt: &[u8; 40], body: &[u8]) -> Vec<u8> {
    [vec![V::SIG_HDR], salt.to_vec(), body.to_vec()].concat()
}

/// Boundary triple: s2 = sign*x^k, s1 = e chosen with ||e||^2 + 1 = norm.
pub fn boundary_event<V: Fv>(rng: &mut impl RngCore, norm: i64, k: usize, sign: i32, twist: u64, tag: &str) -> Value {
    let n = V::N;
    let mut salt = [0u8; 40];
    rng.fill_bytes(&mut salt);
    let msg = msg_of_len(rng, (twist % 50) as usize);
    let c = verif::hash_to_point(&[salt.to_vec(), msg.clone()].concat(), n);
    let e = vec_with_norm(n, norm - 1, twist);
    let h = pk_for_s1(&c, &e, k, sign);
    let pkb = pk_bytes(&h, V::LOGN);
    let mut s2 = vec![0i16; n];
    s2[k] = sign as i16;
    let body = pack_coeffs(&s2, V::SIG_LEN - 41);
    verify_event::<V>(&msg, &sig_bytes::<V>(&salt, &body), &pkb, tag)
}

/// Boundary triple (s2 = x^k) for a GIVEN salt and message (the corpus of extreme hash streams).
pub fn boundary_event_at<V: Fv>(salt: &[u8; 40], msg: &[u8], norm: i64, k: usize, twist: u64, tag: &str) -> Value {
    let n = V::N;
    let c = verif::hash_to_point(&[salt.to_vec(), msg.to_vec()].concat(), n);
    let e = vec_with_norm(n, norm - 1, twist);
    let h = pk_for_s1(&c, &e, k, 1);
    let pkb = pk_bytes(&h, V::LOGN);
    let mut s2 = vec![0i16; n];
    s2[k] = 1;
    let body = pack_coeffs(&s2, V::SIG_LEN - 41);
    verify_event::<V>(msg, &sig_bytes::<V>(salt, &body), &pkb, tag)
}

/// Boundary triple for an ARBITRARY s2 (invertible mod q): s1 = e with ||e||^2 + ||s2||^2 = norm, the public key solved for.
/// `raw` optionally gives the bit-level encoding of s2 (for bodies that fill the buffer to a chosen slack).
pub fn general_boundary_event<V: Fv>(rng: &mut impl RngCore, s2: &[i16], norm: i64, twist: u64, tag: &str) -> Option<Value> {
    let n = V::N;
    let ns2: i64 = s2.iter().map(|&x| (x as i64) * (x as i64)).sum();
    if norm - ns2 < 0 {
        return None;
    }
    let mut salt = [0u8; 40];
    rng.fill_bytes(&mut salt);
    let msg = msg_of_len(rng, (twist % 60) as usize);
    let c = verif::hash_to_point(&[salt.to_vec(), msg.clone()].concat(), n);
    let e = vec_with_norm(n, norm - ns2, twist);
    let h = crate::craft::pk_for_s1_general(&c, &e, s2)?;
    let pkb = pk_bytes(&h, V::LOGN);
    let mut bits = vec![];
    for &v in s2 {
        push_coeff(&mut bits, v as i32);
    }
    if bits.len() > 8 * (V::SIG_LEN - 41) {
        return None;
    }
    let body = bits_to_bytes(&bits, V::SIG_LEN - 41);
    Some(verify_event::<V>(&msg, &sig_bytes::<V>(&salt, &body), &pkb, tag))
}

/// s1 with entries at the centred-reduction edge: c - s2*h = +-6144 exactly in some places.
pub fn edge_event<V: Fv>(rng: &mut impl RngCore, positive: bool, tag: &str) -> Value {
    let n = V::N;
    let mut salt = [0u8; 40];
    rng.fill_bytes(&mut salt);
    let msg = msg_of_len(rng, 9);
    let c = verif::hash_to_point(&[salt.to_vec(), msg.clone()].concat(), n);
    // e: two entries 6144 and -6144 (norm contribution 2*6144^2 = 75497472 > bound for 512: rejected on norm;
    // with centred reduction done wrong (6145 -> kept positive) the norm differs but still rejects) -- so use
    // one entry +6144/-6144 only when the bound allows: 6144^2 = 37748736 > 34034726 (512) but < 70265242 (1024).
    let mut e = vec![0i16; n];
    if n == 1024 {
        e[3] = if positive { 6144 } else { -6144 };
        // fill the rest up to the exact bound
        let rest = V::BOUND - 1 - 6144i64 * 6144;
        let filler = vec_with_norm(n - 8, rest, 1);
        for (i, v) in filler.iter().enumerate() {
            e[8 + i] = *v;
        }
    } else {
        e[3] = 5800;
        e[4] = -300;
        let used: i64 = 5800 * 5800 + 300 * 300;
        let filler = vec_with_norm(n - 8, V::BOUND - 1 - used, 2);
        for (i, v) in filler.iter().enumerate() {
            e[8 + i] = *v;
        }
    }
    let h = pk_for_s1(&c, &e, 0, 1);
    let pkb = pk_bytes(&h, V::LOGN);
    let mut s2 = vec![0i16; n];
    s2[0] = 1;
    let body = pack_coeffs(&s2, V::SIG_LEN - 41);
    verify_event::<V>(&msg, &sig_bytes::<V>(&salt, &body), &pkb, tag)
}

/// The adversarial corpus of DESIGN.md section 5 / C02 for one variant.
pub fn c02_corpus<V: Fv>(seed: u64, thorough: bool, out: &mut Shards) {
    let mut rng = rng_for(seed, &format!("c02-{}", V::N));
    let nkeys = if thorough { 3 } else { 1 };
    let keys: Vec<(V::Sk, V::Pk)> = (0..nkeys + 1).map(|_| V::keygen(rng.gen())).collect();
    let lens: Vec<usize> = if thorough {
        vec![0, 1, 5, 40, 95, 96, 97, 135, 136, 137, 271, 272, 273, 1000, 4056, 4057, 4096, 16385]
    } else {
        vec![0, 5, 96, 300, 4057]
    };
    let body_len = V::SIG_LEN - 41;
    for (ki, (sk, pk)) in keys.iter().take(nkeys).enumerate() {
        let pkb = V::pk_to_bytes(pk);
        let other_pkb = V::pk_to_bytes(&keys[ki + 1].1);
        for (li, &len) in lens.iter().enumerate() {
            let msg = msg_of_len(&mut rng, len);
            let sig = V::sign(&msg, sk);
            let sigb = V::sig_to_bytes(&sig);
            out.emit(verify_event::<V>(&msg, &sigb, &pkb, "honest"));
            if li % 2 == 0 || thorough {
                let lsb = last_set_bit(&sigb);
                // salt bit, body bits, last coefficient terminator, first padding bit, very last bit
                let flips = [8 + rng.gen_range(0..320), 8 * 41 + rng.gen_range(0..64), 8 * 41 + rng.gen_range(64..3000),
                             lsb, lsb + 1, V::SIG_LEN * 8 - 1];
                for (fi, &bit) in flips.iter().enumerate() {
                    if thorough || (li + fi) % 3 == 0 {
                        out.emit(verify_event::<V>(&msg, &flip(&sigb, bit), &pkb, "sig-bitflip"));
                    }
                }
                let mut m2 = msg.clone();
                m2.push(0);
                out.emit(verify_event::<V>(&m2, &sigb, &pkb, "msg-extended"));
                if !msg.is_empty() {
                    out.emit(verify_event::<V>(&flip(&msg, 0), &sigb, &pkb, "msg-bitflip"));
                }
                out.emit(verify_event::<V>(&msg, &sigb, &other_pkb, "other-key"));
                out.emit(verify_event::<V>(&msg, &sigb, &flip(&pkb, 8 + rng.gen_range(0..14 * V::N)), "pk-bitflip"));
                // header relabelled / other variant's header
                let mut s3 = sigb.clone();
                s3[0] = 0x30 | V::LOGN;
                out.emit(verify_event::<V>(&msg, &s3, &pkb, "sig-header"));
            }
        }
    }
    // --- malformed / non-canonical bodies under a real key
    let (_, pk0) = &keys[0];
    let pkb0 = V::pk_to_bytes(pk0);
    let mut salt = [0u8; 40];
    rng.fill_bytes(&mut salt);
    let n = V::N;
    let msg = b"malformed".to_vec();
    let zero = (false, 0u32, 0usize);
    let mut fams: Vec<(&str, Vec<(bool, u32, usize)>)> = vec![];
    let base = vec![zero; n];
    for &pos in &[0usize, n / 2, n - 1] {
        let mut v = base.clone();
        v[pos] = (true, 0, 0);
        fams.push(("minus-zero", v));
        for &run in &[94usize, 95, 96, 255, 256] {
            let mut v = base.clone();
            v[pos] = (true, 0, run);
            fams.push(("long-run", v));
            if thorough {
                let mut v = base.clone();
                v[pos] = (false, 127, run);
                fams.push(("long-run", v));
            }
        }
    }
    // too few / too many coefficients
    fams.push(("one-short", vec![zero; n - 1]));
    if 9 * (n + 1) <= 8 * body_len {
        fams.push(("one-extra", vec![zero; n + 1]));
    }
    for (tag, v) in fams {
        if let Some(body) = body_from_coeffs_raw(&v, body_len) {
            out.emit(verify_event::<V>(&msg, &sig_bytes::<V>(&salt, &body), &pkb0, tag));
        }
    }
    // last coefficient ending exactly at / one bit before / beyond the end of the buffer
    for &slack in &[0usize, 1, 2, 7, 8, 9] {
        let mut v = base.clone();
        let used = 9 * (n - 1);
        let total = 8 * body_len;
        // stretch coefficient 0's run so that the last coefficient ends `slack` bits before the end
        let want_last_len = 9;
        let pad = total - used - want_last_len - slack;
        // distribute pad over runs of at most 94
        let mut left = pad;
        let mut i = 0;
        while left > 0 {
            let r = left.min(94);
            v[i].2 = r;
            left -= r;
            i += 1;
        }
        if let Some(body) = body_from_coeffs_raw(&v, body_len) {
            out.emit(verify_event::<V>(&msg, &sig_bytes::<V>(&salt, &body), &pkb0, "tight-fit"));
        }
    }
    // random bodies
    for _ in 0..(if thorough { 200 } else { 3 }) {
        let mut body = vec![0u8; body_len];
        rng.fill_bytes(&mut body);
        out.emit(verify_event::<V>(&msg, &sig_bytes::<V>(&salt, &body), &pkb0, "random-body"));
    }
    // --- boundary triples
    let ks: Vec<usize> = if thorough { vec![0, 1, 2, 3, 7, n / 4, n / 2 - 1, n / 2, n / 2 + 1, n - 3, n - 2, n - 1] } else { vec![0, n - 1] };
    let mut twist = 1u64;
    for &k in &ks {
        for &sign in &[1i32, -1] {
            for delta in [-1i64, 0, 1] {
                if !thorough && sign == -1 && k != 0 && delta != 0 {
                    continue;
                }
                for _ in 0..(if thorough { 3 } else { 1 }) {
                    twist += 1;
                    out.emit(boundary_event::<V>(&mut rng, V::BOUND + delta, k, sign, twist, "boundary"));
                }
            }
        }
    }
    // --- boundary triples with general s2: one large coefficient (at the edges of 7, 11 and 13 bits: 127/128, 2047/2048, 5833
    // = the largest that fits under the Falcon-512 bound) among small dense ones; a dense s2 of honest size; norms at the bound
    // and one above.  A verifier that caps coefficient magnitudes, or sums the norm in a narrower type, departs here.
    {
        let mut tw = 100u64;
        let bigs: Vec<i16> = if thorough { vec![127, 128, 255, 256, 2047, 2048, 4095, 4096, 5833] } else { vec![128, 2048, 5833] };
        for &big in &bigs {
            for &sign in &[1i16, -1] {
                if !thorough && sign == -1 && big != 2048 {
                    continue;
                }
                for delta in [0i64, 1] {
                    for attempt in 0..4 {
                        tw += 1;
                        let mut s2: Vec<i16> = (0..n).map(|_| rng.gen_range(-3..=3)).collect();
                        let pos = [0usize, n / 2, n - 1, 7][(tw as usize + attempt) % 4];
                        s2[pos] = sign * big;
                        if let Some(ev) = general_boundary_event::<V>(&mut rng, &s2, V::BOUND + delta, tw, "boundary-large-coefficient") {
                            out.emit(ev);
                            break;
                        }
                    }
                }
            }
        }
        for delta in [-1i64, 0, 1] {
            for _ in 0..4 {
                tw += 1;
                // dense s2 of honest size (standard deviation about 165), about half of the bound
                let s2: Vec<i16> = (0..n).map(|_| { let u: f64 = rng.gen::<f64>() + rng.gen::<f64>() + rng.gen::<f64>() + rng.gen::<f64>() - 2.0; (u * 285.0) as i16 }).collect();
                if let Some(ev) = general_boundary_event::<V>(&mut rng, &s2, V::BOUND + delta, tw, "boundary-dense-s2") {
                    out.emit(ev);
                    break;
                }
            }
        }
        // bodies that fill the buffer to a chosen slack with the norm AT the bound (accepted iff well-formed): the spare bits are
        // spread as runs of one over many coefficients (values +-128), so the norm stays far below the bound
        let total = 8 * body_len;
        for &slack in &[0usize, 1, 2, 7, 8, 9] {
            for _ in 0..4 {
                tw += 1;
                let spare = total - 9 * n - slack;
                let mut s2: Vec<i16> = (0..n).map(|i| if i < spare { if i % 2 == 0 { 128 } else { -128 } } else { rng.gen_range(-5..=5) }).collect();
                s2.rotate_left((tw % 7) as usize);
                if let Some(ev) = general_boundary_event::<V>(&mut rng, &s2, V::BOUND, tw, "tight-fit-at-bound") {
                    out.emit(ev);
                    break;
                }
            }
        }
        // norms at the edges of 32-bit types (all far above the bound: rejected by the specification)
        let wide: Vec<i64> = if thorough { vec![(1 << 31) - 1, 1 << 31, (1 << 31) + V::BOUND, (1i64 << 32) - 1, 1i64 << 32, (1i64 << 32) + V::BOUND, 3 * (1i64 << 32) + 1] }
                             else { vec![(1 << 31) + V::BOUND / 2, (1i64 << 32) + V::BOUND / 2] };
        for w in wide {
            if w < (n as i64) * 6000 * 6000 {
                tw += 1;
                out.emit(boundary_event::<V>(&mut rng, w, 1, 1, tw, "norm-at-32-bit-edge"));
            }
        }
    }
    // s2 with ONE coefficient beyond the centred range of Z_q (6144 < |x| <= 12159: decodable, far outside the bound) and a public key
    // solved so that s1 is tiny: the norm must be taken on the decoded integers, not on residues (accepted encodings s_i -+ q otherwise)
    {
        let mut tw = 500u64;
        let xs: Vec<i16> = if thorough { vec![5834, 6144, 6145, 6456, 7000, 8000, 8382, 8383, 9000, 11000, 12000, 12158, 12159] } else { vec![6145, 8000, 8383, 12159] };
        for &x in &xs {
            for &sign in &[1i16, -1] {
                if !thorough && sign == -1 && x != 8000 {
                    continue;
                }
                for attempt in 0..4u64 {
                    tw += 1;
                    let mut s2: Vec<i16> = vec![0i16; n];
                    s2[((tw + attempt) as usize * 37) % n] = sign * x;
                    if attempt > 0 {
                        s2[(tw as usize * 11 + 3) % n] += 1;
                    }
                    let ns2: i64 = s2.iter().map(|&v| (v as i64) * (v as i64)).sum();
                    if let Some(ev) = general_boundary_event::<V>(&mut rng, &s2, ns2 + 1000 + tw as i64, tw, "large-coefficient-beyond-centred-range") {
                        out.emit(ev);
                        break;
                    }
                }
            }
        }
    }
    // s1 extreme on whole aligned blocks (+-6144 on 16, 64, 128, n consecutive coefficients): partial sums of the norm at their largest
    for (len, off) in [(16usize, 0usize), (64, 0), (64, 64), (64, n - 64), (128, 128), (n / 2, n / 2), (n, 0)] {
        if !thorough && (len == 16 || len == 128) {
            continue;
        }
        for pattern in 0..2 {
            let mut salt = [0u8; 40];
            rng.fill_bytes(&mut salt);
            let msg = msg_of_len(&mut rng, 11);
            let c = verif::hash_to_point(&[salt.to_vec(), msg.clone()].concat(), n);
            let mut e = vec![0i16; n];
            for i in 0..len {
                e[off + i] = if pattern == 0 || i % 2 == 0 { 6144 } else { -6144 };
            }
            let h = pk_for_s1(&c, &e, 0, 1);
            let mut s2 = vec![0i16; n];
            s2[0] = 1;
            let body = pack_coeffs(&s2, V::SIG_LEN - 41);
            out.emit(verify_event::<V>(&msg, &sig_bytes::<V>(&salt, &body), &pk_bytes(&h, V::LOGN), "s1-extreme-block"));
        }
    }
    // the corpus of extreme hash streams: c must be the specification's point also when the stream is consumed far beyond its usual
    // length or contains long runs of rejected chunks (accept at the bound / reject one above)
    for (j, (i, tag)) in crate::corpus::H2P_EXTREME.iter().enumerate().take(if thorough { 12 } else { 6 }) {
        let salt = crate::corpus::h2p_salt(*i);
        out.emit(boundary_event_at::<V>(&salt, crate::corpus::H2P_MSG, V::BOUND, j % 3, 7 + j as u64, tag));
        if thorough || j < 2 {
            out.emit(boundary_event_at::<V>(&salt, crate::corpus::H2P_MSG, V::BOUND + 1, 1, 9 + j as u64, tag));
        }
    }
    out.emit(boundary_event::<V>(&mut rng, 1, 0, 1, 3, "norm-one"));
    out.emit(boundary_event::<V>(&mut rng, 2 * V::BOUND, 1, -1, 4, "norm-double"));
    out.emit(edge_event::<V>(&mut rng, true, "centred-edge-plus"));
    out.emit(edge_event::<V>(&mut rng, false, "centred-edge-minus"));
    // --- sequences on one thread: a rejected (malformed, partially decodable) signature, then an honest one, then the malformed
    // one again, then an honest one under another key (state kept between verify calls)
    {
        let msg = b"sequence".to_vec();
        let sig = V::sig_to_bytes(&V::sign(&msg, &keys[0].0));
        let mut bad = sig.clone();
        for b in bad.iter_mut().skip(41 + 200) {
            *b = 0;
        }
        let mut bad2 = sig.clone();
        let l = bad2.len();
        bad2[l - 1] |= 1;
        let pk_a = V::pk_to_bytes(&keys[0].1);
        let pk_b = V::pk_to_bytes(&keys[1 % keys.len()].1);
        let sig_b = V::sig_to_bytes(&V::sign(&msg, &keys[1 % keys.len()].0));
        for (s, p, tag) in [(&bad, &pk_a, "seq-malformed"), (&sig, &pk_a, "seq-honest-after-malformed"), (&bad2, &pk_a, "seq-padding"),
                            (&sig_b, &pk_b, "seq-honest-other-key"), (&bad, &pk_b, "seq-malformed"), (&sig, &pk_a, "seq-honest-again")] {
            out.emit(verify_event::<V>(&msg, s, p, tag));
        }
    }
    // --- degenerate public keys
    {
        let msg = b"degenerate".to_vec();
        let sig = V::sign(&msg, &keys[0].0);
        let sigb = V::sig_to_bytes(&sig);
        out.emit(verify_event::<V>(&msg, &sigb, &pk_bytes(&vec![0i32; n], V::LOGN), "pk-zero"));
        let mut h = vec![0i32; n];
        h[0] = 1;
        out.emit(verify_event::<V>(&msg, &sigb, &pk_bytes(&h, V::LOGN), "pk-one"));
        let mut h = vec![12288i32; n];
        h[n - 1] = 12289;
        out.emit(verify_event::<V>(&msg, &sigb, &pk_bytes(&h, V::LOGN), "pk-field-q"));
        let mut pkb = V::pk_to_bytes(&keys[0].1);
        pkb[0] ^= 0x10;
        out.emit(verify_event::<V>(&msg, &sigb, &pkb, "pk-header"));
        // wrong lengths with an otherwise intact encoding: one byte more / less, other multiples
        let good = V::pk_to_bytes(&keys[0].1);
        for extra in [1usize, 2, 7] {
            let mut p = good.clone();
            p.extend(vec![0u8; extra]);
            out.emit(verify_event::<V>(&msg, &sigb, &p, "pk-length"));
        }
        out.emit(verify_event::<V>(&msg, &sigb, &good[..good.len() - 1], "pk-length"));
        let mut s2 = sigb.clone();
        s2.push(0);
        out.emit(verify_event::<V>(&msg, &s2, &good, "sig-length"));
        out.emit(verify_event::<V>(&msg, &sigb[..sigb.len() - 1], &V::pk_to_bytes(&keys[0].1), "sig-length"));
    }
}

/// Cross-variant sequences: a Falcon-1024 public key whose h is a Falcon-512 key's h padded with zero coefficients (and a
/// Falcon-512 key cut out of a Falcon-1024 key's h), verified right before a genuine signature of the other variant on the
/// same thread (state keyed by the polynomial but not by the degree / variant).
fn cross_variant_sequences(seed: u64, out: &mut Shards) {
    let mut rng = rng_for(seed, "c02-cross-variant");
    let (sk5, pk5) = V512::keygen(rng.gen());
    let (sk10, pk10) = V1024::keygen(rng.gen());
    let msg = b"cross variant".to_vec();
    let sig5 = V512::sig_to_bytes(&V512::sign(&msg, &sk5));
    let sig10 = V1024::sig_to_bytes(&V1024::sign(&msg, &sk10));
    let pkb5 = V512::pk_to_bytes(&pk5);
    let pkb10 = V1024::pk_to_bytes(&pk10);
    // decode the 14-bit fields
    let fields = |b: &[u8]| -> Vec<i32> {
        let nb = (b.len() - 1) * 8 / 14;
        (0..nb).map(|i| (0..14).fold(0i32, |a, j| { let bit = 8 + 14 * i + j; (a << 1) | ((b[bit / 8] >> (7 - bit % 8)) & 1) as i32 })).collect()
    };
    let h5 = fields(&pkb5);
    let h10 = fields(&pkb10);
    let mut padded = h5.clone();
    padded.resize(1024, 0);
    let pk_padded = pk_bytes(&padded, 10);
    let pk_cut = pk_bytes(&h10[..512].to_vec(), 9);
    out.emit(verify_event::<V1024>(&msg, &sig10, &pk_padded, "xvariant-1024-key-from-padded-512-h"));
    out.emit(verify_event::<V512>(&msg, &sig5, &pkb5, "xvariant-genuine-512-after-padded"));
    out.emit(verify_event::<V512>(&msg, &sig5, &pk_cut, "xvariant-512-key-cut-from-1024-h"));
    out.emit(verify_event::<V1024>(&msg, &sig10, &pkb10, "xvariant-genuine-1024-after-cut"));
    out.emit(verify_event::<V512>(&msg, &sig5, &pkb5, "xvariant-genuine-512-again"));
}

pub fn c02(args: &Args) {
    let seed = args.num("--seed", 1);
    let dir = std::path::PathBuf::from(args.get_or("--out", "work/c02"));
    let shards = args.num("--shards", 8) as usize;
    let mut out = Shards::create(&dir, "verify", shards);
    c02_corpus::<V512>(seed, args.thorough(), &mut out);
    c02_corpus::<V1024>(seed, args.thorough(), &mut out);
    // the cross-variant family must be consecutive on this thread: it goes into one shard of its own
    let mut xo = Shards::create(&dir, "verifyx", 1);
    cross_variant_sequences(seed, &mut xo);
    println!("events {}", out.finish() + xo.finish());
}
