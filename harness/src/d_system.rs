//! System-level histories (C08 salts, C15 keygen determinism, C01 concurrency): many threads and
//! several processes exercising keygen / sign / verify; light events with per-thread sequence numbers.
use crate::common::*;
use crate::variant::*;
use rand::Rng;
use serde_json::{json, Value};
use std::path::PathBuf;
use std::sync::Arc;

fn sign_events<V: Fv>(proc_id: u64, seed: u64, nthreads: usize, per: usize, nkeys: usize) -> Vec<Value> {
    let mut rng = rng_for(seed, &format!("system-{}-{}", V::N, proc_id));
    let keys: Vec<Shared<(V::Sk, V::Pk)>> = (0..nkeys).map(|_| share(V::keygen(rng.gen()))).collect();
    let mut handles = vec![];
    for t in 0..nthreads {
        let keys = keys.clone();
        let mut trng = rng_for(seed, &format!("system-thread-{}-{}-{}", V::N, proc_id, t));
        handles.push(std::thread::spawn(move || {
            let mut evs = vec![];
            for i in 0..per {
                let kid = (t + i) % keys.len();
                // message ids: few distinct messages, so that the same (key, message) is signed many times
                let mid = trng.gen_range(0..4u64);
                let msg = format!("message-{}", mid).into_bytes();
                let sig = V::sign(&msg, &keys[kid].0);
                let b = V::sig_to_bytes(&sig);
                let ok = V::verify(&msg, &sig, &keys[kid].1);
                evs.push(json!({"ev":"sign","proc":proc_id,"thr":t,"seq":i,"n":V::N,"key":kid,"msg":mid,
                                "hdr":b[0],"salt":bytes_json(&b[1..41]),"siglen":b.len(),"verified":ok,
                                "body_sha3":sha3_hex(&b[41..])}));
            }
            evs
        }));
    }
    let mut all = vec![];
    for h in handles {
        all.extend(h.join().unwrap());
    }
    // histories in which a DETERMINISTIC operation precedes signing on the same thread: keygen from one fixed seed (the same in
    // every process and thread: an application that re-derives its key at start-up), and loading that key from bytes.  The salts
    // must still be fresh across all of them.
    let fixed: [u8; 32] = [0x5a; 32];
    let mut hs = vec![];
    for t in 0..3usize {
        hs.push(std::thread::spawn(move || {
            let mut evs = vec![];
            let (sk, pk) = V::keygen(fixed);
            let skb = V::sk_to_bytes(&sk);
            for i in 0..12usize {
                let sk_used = if i == 6 { V::sk_from_bytes(&skb).unwrap_or_else(|_| sk.clone()) } else if i == 9 { V::keygen(fixed).0 } else { sk.clone() };
                let msg = format!("message-{}", i % 2).into_bytes();
                let sig = V::sign(&msg, &sk_used);
                let b = V::sig_to_bytes(&sig);
                evs.push(json!({"ev":"sign","proc":proc_id,"thr":100 + t,"seq":i,"n":V::N,"key":99,"msg":i % 2,
                                "hdr":b[0],"salt":bytes_json(&b[1..41]),"siglen":b.len(),"verified":V::verify(&msg, &sig, &pk),
                                "body_sha3":sha3_hex(&b[41..])}));
            }
            evs
        }));
    }
    for h in hs {
        all.extend(h.join().unwrap());
    }
    all
}

/// message ids >= 1000 stand for long messages of exactly that many bytes
fn message_of(mid: u64) -> Vec<u8> {
    if mid >= 1000 {
        (0..mid as usize).map(|i| (i % 251) as u8).collect()
    } else {
        format!("message-{}", mid).into_bytes()
    }
}

fn sign_event_json<V: Fv>(proc_id: u64, thr: usize, seq: usize, kid: u64, mid: u64, sk: &V::Sk, pk: &V::Pk) -> Value {
    let msg = message_of(mid);
    let sig = V::sign(&msg, sk);
    let b = V::sig_to_bytes(&sig);
    json!({"ev":"sign","proc":proc_id,"thr":thr,"seq":seq,"n":V::N,"key":kid,"msg":mid,
           "hdr":b[0],"salt":bytes_json(&b[1..41]),"siglen":b.len(),"verified":V::verify(&msg, &sig, pk),
           "body_sha3":sha3_hex(&b[41..])})
}

/// Further histories: (a) ONE thread signing very many times (a salt pool with a period of a few hundred or thousand draws),
/// (b) threads that alternate the two variants call by call (generator state keyed or re-initialised by variant), with keys from
/// `generate()`, (c) bursts: all threads released by a barrier sign at the same instant (a racy process-wide generator).
fn more_sign_histories(proc_id: u64, long512: usize, long1024: usize, bursts: usize) -> Vec<Value> {
    let mut hs: Vec<std::thread::JoinHandle<Vec<Value>>> = vec![];
    hs.push(std::thread::spawn(move || {
        let (sk, pk) = V512::generate();
        (0..long512).map(|i| sign_event_json::<V512>(proc_id, 200, i, 200, (i % 3) as u64, &sk, &pk)).collect()
    }));
    hs.push(std::thread::spawn(move || {
        let (sk, pk) = V1024::generate();
        (0..long1024).map(|i| sign_event_json::<V1024>(proc_id, 201, i, 201, (i % 3) as u64, &sk, &pk)).collect()
    }));
    for t in 0..3usize {
        hs.push(std::thread::spawn(move || {
            let (ska, pka) = V512::generate();
            let (skb, pkb) = V1024::generate();
            let mut evs = vec![];
            for i in 0..120usize {
                if (i + t) % 2 == 0 {
                    evs.push(sign_event_json::<V512>(proc_id, 210 + t, i, 210 + t as u64, (i % 2) as u64, &ska, &pka));
                } else {
                    evs.push(sign_event_json::<V1024>(proc_id, 210 + t, i, 210 + t as u64, (i % 2) as u64, &skb, &pkb));
                }
            }
            evs
        }));
    }
    // long messages, around the sizes at which an implementation may switch buffers (the salt must be as fresh as for short ones)
    hs.push(std::thread::spawn(move || {
        let (ska, pka) = V512::generate();
        let (skb, pkb) = V1024::generate();
        let mut evs = vec![];
        let mut seq = 0;
        for rep in 0..3 {
            for &len in &[1000u64, 4055, 4056, 4057, 4096, 4097, 8191, 8192, 8193, 16384, 65535, 65536, 65537, 100000] {
                let _ = rep;
                evs.push(sign_event_json::<V512>(proc_id, 230, seq, 230, len, &ska, &pka));
                evs.push(sign_event_json::<V1024>(proc_id, 230, seq + 1, 231, len, &skb, &pkb));
                seq += 2;
            }
        }
        evs
    }));
    let nb = 12usize;
    let barrier = Arc::new(std::sync::Barrier::new(nb));
    for t in 0..nb {
        let barrier = barrier.clone();
        hs.push(std::thread::spawn(move || {
            let (sk, pk) = V512::keygen([t as u8 + 100; 32]);
            let mut evs = vec![];
            for i in 0..bursts {
                barrier.wait();
                evs.push(sign_event_json::<V512>(proc_id, 220 + t, i, 220 + t as u64, 0, &sk, &pk));
            }
            evs
        }));
    }
    let mut all = vec![];
    for h in hs {
        all.extend(h.join().unwrap());
    }
    all
}

static T0: std::sync::OnceLock<std::time::Instant> = std::sync::OnceLock::new();
fn keygen_event<V: Fv>(proc_id: u64, thr: usize, seq: usize, seed: [u8; 32], tag: &str) -> Value {
    let (sk, pk) = V::keygen(seed);
    json!({"ev":"keygen","proc":proc_id,"thr":thr,"seq":seq,"n":V::N,"seed":bytes_json(&seed),
           "sk_sha3":sha3_hex(&V::sk_to_bytes(&sk)),"pk_sha3":sha3_hex(&V::pk_to_bytes(&pk)),
           "sklen":V::sk_to_bytes(&sk).len(),"pklen":V::pk_to_bytes(&pk).len(),"tag":tag})
}

/// keygen determinism: same seed repeated in one thread, across threads while other threads sign,
/// and after intervening sign calls; plus all 256 single-bit flips of a base seed.
fn keygen_events<V: Fv>(proc_id: u64, seed: u64, bases: usize, flips: usize, concurrent: bool) -> Vec<Value> {
    let thorough_sweep = bases >= 4; // the full 2 x 256 byte sweep only in the thorough tier
    let mut rng = rng_for(seed, &format!("keygen-{}", V::N)); // same in every process
    let mut evs = vec![];
    let mut base_seeds: Vec<[u8; 32]> = (0..bases).map(|_| rng.gen()).collect();
    // seeds that take the rare retry branch of key generation (corpus.rs): a retry that draws fresh entropy instead of
    // continuing the seeded stream is only seen on such seeds
    let ncorpus = if thorough_sweep { 8 } else if V::N == 512 { 2 } else { 1 };
    base_seeds.extend(crate::corpus::fg_window(V::N).iter().take(ncorpus).map(|(i, _)| crate::corpus::corpus_seed(*i)));
    // ... and seeds whose key generation goes through more than a hundred candidates
    base_seeds.extend(crate::corpus::long_stream(V::N).iter().take(if thorough_sweep { 3 } else { 1 }).map(|(i, _)| crate::corpus::corpus_seed(*i)));
    for (bi, base) in base_seeds.iter().enumerate() {
        evs.push(keygen_event::<V>(proc_id, 0, evs.len(), *base, "base"));
        evs.push(keygen_event::<V>(proc_id, 0, evs.len(), *base, "repeat-same-thread"));
        if bi == 0 {
            // after intervening sign calls on this thread
            let (sk, _) = V::keygen(*base);
            for i in 0..50 {
                let _ = V::sign(format!("x{}", i).as_bytes(), &sk);
            }
            evs.push(keygen_event::<V>(proc_id, 0, evs.len(), *base, "repeat-after-signing"));
        }
    }
    eprintln!("[c15] n={} bases done {:?}", V::N, T0.get_or_init(std::time::Instant::now).elapsed());
    // the same seeds through the other public constructor: SecretKey::generate_from_seed + PublicKey::from_secret_key
    for base in base_seeds.iter().take(2) {
        let sk = V::generate_from_seed(*base);
        let pk = V::pk_from_sk(&sk);
        evs.push(json!({"ev":"keygen","proc":proc_id,"thr":0,"seq":evs.len(),"n":V::N,"seed":bytes_json(base),
               "sk_sha3":sha3_hex(&V::sk_to_bytes(&sk)),"pk_sha3":sha3_hex(&V::pk_to_bytes(&pk)),
               "sklen":V::sk_to_bytes(&sk).len(),"pklen":V::pk_to_bytes(&pk).len(),"tag":"via-generate-from-seed"}));
    }
    // A-B-A on one thread, and the other variant in between (a cache keyed too coarsely would answer A's key for B or B's for A)
    if base_seeds.len() >= 2 {
        evs.push(keygen_event::<V>(proc_id, 0, evs.len(), base_seeds[0], "aba"));
        evs.push(keygen_event::<V>(proc_id, 0, evs.len(), base_seeds[1], "aba"));
        evs.push(keygen_event::<V>(proc_id, 0, evs.len(), base_seeds[0], "aba"));
        let mut near = base_seeds[0];
        near[31] ^= 0x80;
        evs.push(keygen_event::<V>(proc_id, 0, evs.len(), near, "aba-near"));
        near[0] ^= 0x01;
        evs.push(keygen_event::<V>(proc_id, 0, evs.len(), near, "aba-near"));
        evs.push(keygen_event::<V>(proc_id, 0, evs.len(), base_seeds[0], "aba"));
    }
    // byte sweeps: every value of seed byte 0 (and extreme values of bytes 15, 31) on an all-zero and an all-ones base: the
    // seed is consumed byte-wise, so wrap-around / saturation / truncation mistakes show at 0x00, 0x7f, 0x80, 0xff
    if flips > 0 {
        let mut sweep: Vec<[u8; 32]> = vec![];
        for basev in [0u8, 255] {
            for v in 0..=255u8 {
                if (flips < 256 || !thorough_sweep) && !(v < 4 || v > 251 || (126..=129).contains(&v)) {
                    continue;
                }
                let mut s = [basev; 32];
                s[0] = v;
                sweep.push(s);
            }
            for pos in 1usize..32 {
                for v in [0u8, 1, 127, 128, 254, 255] {
                    if !thorough_sweep && V::N == 1024 && !(pos % 8 == 7 || pos == 16) {
                        continue;
                    }
                    let mut s = [basev; 32];
                    s[pos] = v;
                    sweep.push(s);
                }
            }
        }
        sweep.sort();
        sweep.dedup();
        let chunks: Vec<Vec<[u8; 32]>> = sweep.chunks((sweep.len() + 11) / 12).map(|c| c.to_vec()).collect();
        let mut hs = vec![];
        for (t, ch) in chunks.into_iter().enumerate() {
            hs.push(std::thread::spawn(move || ch.iter().enumerate().map(|(i, s)| keygen_event::<V>(proc_id, 20 + t, i, *s, "byte-sweep")).collect::<Vec<_>>()));
        }
        for h in hs {
            evs.extend(h.join().unwrap());
        }
    }
    eprintln!("[c15] n={} sweeps done {:?}", V::N, T0.get_or_init(std::time::Instant::now).elapsed());
    // bit flips, computed on a pool of threads; concurrently other threads sign (shared key)
    let base = base_seeds[0];
    let (bsk, _) = V::keygen(base);
    let bsk = share(bsk);
    let stop = Arc::new(std::sync::atomic::AtomicBool::new(false));
    let mut signers = vec![];
    if concurrent {
        for _ in 0..4 {
            let sk = bsk.clone();
            let stop = stop.clone();
            signers.push(std::thread::spawn(move || {
                let mut k = 0u64;
                while !stop.load(std::sync::atomic::Ordering::Relaxed) {
                    let _ = V::sign(&k.to_le_bytes(), &sk);
                    k += 1;
                }
            }));
        }
    }
    let nthreads = 12;
    let mut handles = vec![];
    for t in 0..nthreads {
        let base = base;
        handles.push(std::thread::spawn(move || {
            let mut evs = vec![];
            let mut seq = 0;
            for k in (t..flips).step_by(nthreads) {
                // fewer than 256 flips are spread over all 32 bytes
                let bit = if flips >= 256 { k } else { (k * (256 / flips)) / 8 * 8 + k % 8 };
                let mut s = base;
                s[bit / 8] ^= 1 << (bit % 8);
                evs.push(keygen_event::<V>(proc_id, t + 1, seq, s, "bitflip"));
                seq += 1;
            }
            // every thread also regenerates the base key concurrently
            evs.push(keygen_event::<V>(proc_id, t + 1, seq, base, "repeat-concurrent"));
            evs
        }));
    }
    for h in handles {
        evs.extend(h.join().unwrap());
    }
    eprintln!("[c15] n={} flips done {:?}", V::N, T0.get_or_init(std::time::Instant::now).elapsed());
    stop.store(true, std::sync::atomic::Ordering::Relaxed);
    for s in signers {
        let _ = s.join();
    }
    evs
}

fn run_children(what: &str, args: &Args, dir: &PathBuf, nproc: u64, extra: &[String]) -> Vec<PathBuf> {
    let exe = std::env::current_exe().unwrap();
    let mut kids = vec![];
    let mut outs = vec![];
    for p in 1..=nproc {
        let out = dir.join(format!("child{}.ndjson", p));
        // the LAST child of a keygen history runs pinned to one CPU (a process that sees a single core: behaviour that branches on
        // the available parallelism); without `taskset` it runs like the others
        let pin = what == "c15" && p == nproc && std::path::Path::new("/usr/bin/taskset").exists();
        let mut cmd = if pin { let mut c = std::process::Command::new("/usr/bin/taskset"); c.arg("-c").arg("0").arg(&exe); c } else { std::process::Command::new(&exe) };
        cmd.arg(what).arg("--seed").arg(args.get_or("--seed", "1")).arg("--tier").arg(args.get_or("--tier", "quick"))
            .arg("--proc").arg(p.to_string()).arg("--child-out").arg(&out);
        for e in extra {
            cmd.arg(e);
        }
        kids.push(cmd.spawn().unwrap());
        outs.push(out);
    }
    for mut k in kids {
        let st = k.wait().unwrap();
        if !st.success() {
            eprintln!("child failed");
            std::process::exit(2);
        }
    }
    outs
}

fn write_events(path: &PathBuf, evs: &[Value]) {
    use std::io::Write;
    let mut f = std::io::BufWriter::new(std::fs::File::create(path).unwrap());
    for e in evs {
        serde_json::to_writer(&mut f, e).unwrap();
        f.write_all(b"\n").unwrap();
    }
}

/// C08: histories of sign calls over threads, keys, messages, processes.
pub fn c08(args: &Args) {
    let seed = args.num("--seed", 1);
    let thorough = args.thorough();
    let per = args.num("--per", if thorough { 2500 } else { 300 }) as usize;
    if let Some(out) = args.get("--child-out") {
        let p = args.num("--proc", 1);
        let mut evs = sign_events::<V512>(p, seed, 16, per, 2);
        evs.extend(sign_events::<V1024>(p, seed, 16, per / 4 + 1, 2));
        if p == 1 {
            let (l5, l10, b) = if thorough { (60000, 20000, 1000) } else { (12000, 5000, 150) };
            evs.extend(more_sign_histories(p, l5, l10, b));
        }
        write_events(&PathBuf::from(out), &evs);
        return;
    }
    let dir = PathBuf::from(args.get_or("--out", "work/c08"));
    std::fs::create_dir_all(&dir).unwrap();
    let outs = run_children("c08", args, &dir, 3, &["--per".to_string(), per.to_string()]);
    // one trace: the concatenation of the processes' traces (any merge is a behaviour of the model)
    let mut all = vec![];
    for o in outs {
        let s = std::fs::read_to_string(&o).unwrap();
        all.push(s);
        std::fs::remove_file(&o).unwrap();
    }
    std::fs::write(dir.join("system.0.ndjson"), all.concat()).unwrap();
    println!("events {}", all.concat().lines().count());
}

/// C15: keygen histories.
pub fn c15(args: &Args) {
    let seed = args.num("--seed", 1);
    let thorough = args.thorough();
    if let Some(out) = args.get("--child-out") {
        let p = args.num("--proc", 1);
        // children repeat the base seeds only (cross-process determinism)
        let mut evs = keygen_events::<V512>(p, seed, if thorough { 4 } else { 2 }, 0, false);
        evs.extend(keygen_events::<V1024>(p, seed, 1, 0, false));
        write_events(&PathBuf::from(out), &evs);
        return;
    }
    let dir = PathBuf::from(args.get_or("--out", "work/c15"));
    std::fs::create_dir_all(&dir).unwrap();
    let outs = run_children("c15", args, &dir, 2, &[]);
    // the two variants' histories run side by side (they are separate histories; it also mixes the variants' calls in time)
    let h512 = std::thread::spawn(move || keygen_events::<V512>(0, seed, if thorough { 4 } else { 2 }, 256, true));
    let h1024 = std::thread::spawn(move || keygen_events::<V1024>(0, seed, 1, if thorough { 256 } else { 32 }, true));
    let mut evs: Vec<Value> = vec![];
    // histories that differ only in what the thread did BEFORE: a batch of seeds on a fresh thread, the same batch on a thread that
    // first generated a key of the other variant, and on a thread that first signed -- all must give identical keys (state shared
    // between the variants' key generators or between keygen and sign)
    {
        let count = if thorough { 64u8 } else { 24 };
        let count1024 = if thorough { 12u8 } else { 4 };
        let mut hs = vec![];
        hs.push(std::thread::spawn(move || (0..count).map(|i| keygen_event::<V512>(0, 40, i as usize, [i; 32], "fresh-thread")).collect::<Vec<_>>()));
        hs.push(std::thread::spawn(move || {
            let mut v = vec![keygen_event::<V1024>(0, 41, 0, [3; 32], "other-variant-first")];
            v.extend((0..count).map(|i| keygen_event::<V512>(0, 41, 1 + i as usize, [i; 32], "after-other-variant")));
            v
        }));
        hs.push(std::thread::spawn(move || {
            let (sk, _) = V1024::keygen([5; 32]);
            let _ = V1024::sign(b"warm up", &sk);
            (0..count).map(|i| keygen_event::<V512>(0, 42, i as usize, [i; 32], "after-other-variant-sign")).collect::<Vec<_>>()
        }));
        hs.push(std::thread::spawn(move || (0..count1024).map(|i| keygen_event::<V1024>(0, 43, i as usize, [i; 32], "fresh-thread")).collect::<Vec<_>>()));
        hs.push(std::thread::spawn(move || {
            let mut v = vec![keygen_event::<V512>(0, 44, 0, [3; 32], "other-variant-first")];
            v.extend((0..count1024).map(|i| keygen_event::<V1024>(0, 44, 1 + i as usize, [i; 32], "after-other-variant")));
            v
        }));
        // ... and on threads that first verified (an accepted and a rejected signature, both variants), first decoded keys (one
        // failing), and first caught a panic raised inside a library call
        hs.push(std::thread::spawn(move || {
            let (sk, pk) = V1024::keygen([7; 32]);
            let sig = V1024::sign(b"m", &sk);
            let _ = V1024::verify(b"m", &sig, &pk);
            let _ = V1024::verify(b"other", &sig, &pk);
            let (sk5, pk5) = V512::keygen([7; 32]);
            let sig5 = V512::sign(b"m", &sk5);
            let _ = V512::verify(b"x", &sig5, &pk5);
            (0..count).map(|i| keygen_event::<V512>(0, 45, i as usize, [i; 32], "after-verify")).collect::<Vec<_>>()
        }));
        hs.push(std::thread::spawn(move || {
            let (sk, pk) = V512::keygen([9; 32]);
            let mut skb = V512::sk_to_bytes(&sk);
            let _ = V512::sk_from_bytes(&skb);
            let _ = V512::pk_from_bytes(&V512::pk_to_bytes(&pk));
            skb[0] ^= 0xff;
            let _ = guarded(|| V512::sk_from_bytes(&skb));
            let _ = guarded(|| V1024::sk_from_bytes(&skb));
            let _ = guarded(|| falcon_rust::verif::sampler_z(0.5, 1.5, 1.2778336969128337, &mut crate::d_sampler::ScriptRng::new(vec![0u8; 5])));
            (0..count).map(|i| keygen_event::<V512>(0, 46, i as usize, [i; 32], "after-decoding-and-caught-panic")).collect::<Vec<_>>()
        }));
        for h in hs {
            evs.extend(h.join().unwrap());
        }
    }
    evs.extend(h512.join().unwrap());
    evs.extend(h1024.join().unwrap());
    let mut all = String::new();
    for e in &evs {
        all.push_str(&serde_json::to_string(e).unwrap());
        all.push('\n');
    }
    for o in outs {
        all.push_str(&std::fs::read_to_string(&o).unwrap());
        std::fs::remove_file(&o).unwrap();
    }
    std::fs::write(dir.join("system.0.ndjson"), &all).unwrap();
    println!("events {}", all.lines().count());
}
