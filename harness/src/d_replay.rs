//! `drive replay-events --in f.ndjson --out g.ndjson`: re-execute recorded calls on the code as it is now (for
//! `./check Cxx --replay file`): the inputs are taken from the recorded events, the results are recorded afresh.
use crate::common::*;
use crate::variant::*;
use serde_json::Value;
use std::io::BufRead;

fn bytes(v: &Value) -> Vec<u8> {
    v.as_array().map(|a| a.iter().map(|x| x.as_u64().unwrap_or(0) as u8).collect()).unwrap_or_default()
}
fn i16s(v: &Value) -> Vec<i16> {
    v.as_array().map(|a| a.iter().map(|x| x.as_i64().unwrap_or(0) as i16).collect()).unwrap_or_default()
}

fn redo(e: &Value) -> Value {
    let tag = e["tag"].as_str().unwrap_or("replay").to_string();
    let n = e["n"].as_u64().unwrap_or(512);
    match e["ev"].as_str().unwrap_or("") {
        "verify" => {
            let mut r = if n == 512 {
                crate::d_verify::verify_event::<V512>(&bytes(&e["msg"]), &bytes(&e["sig"]), &bytes(&e["pk"]), &tag)
            } else {
                crate::d_verify::verify_event::<V1024>(&bytes(&e["msg"]), &bytes(&e["sig"]), &bytes(&e["pk"]), &tag)
            };
            r["honest"] = e["honest"].clone();
            r
        }
        "decompress" => crate::d_codec::dec_event(&bytes(&e["x"]), e["n"].as_u64().unwrap_or(1) as usize, &tag),
        "compress" => crate::d_codec::comp_event(&i16s(&e["v"]), e["L"].as_u64().unwrap_or(1) as usize, &tag),
        "decode" => {
            let ty = e["type"].as_str().unwrap_or("pk");
            if n == 512 {
                crate::d_decode::decode_event::<V512>(ty, &bytes(&e["b"]), &tag)
            } else {
                crate::d_decode::decode_event::<V1024>(ty, &bytes(&e["b"]), &tag)
            }
        }
        _ => e.clone(), // no replayer for this event kind: the recorded event is re-validated as it is
    }
}

pub fn replay_events(args: &Args) {
    let inp = args.get("--in").unwrap();
    let out = std::path::PathBuf::from(args.get("--out").unwrap());
    let mut t = Trace::create(out.parent().unwrap(), out.file_name().unwrap().to_str().unwrap());
    let rd = std::io::BufReader::new(std::fs::File::open(inp).unwrap());
    let mut redone = 0;
    for line in rd.lines() {
        let line = line.unwrap();
        if line.trim().is_empty() {
            continue;
        }
        let e: Value = serde_json::from_str(&line).unwrap();
        let r = redo(&e);
        if r != e {
            redone += 1;
        }
        t.emit(r);
    }
    let (_, n) = t.finish();
    println!("events {} changed-by-re-execution {}", n, redone);
}
