use rand::SeedableRng;
use rand_chacha::ChaCha20Rng;
use serde_json::Value;
use std::fs::File;
use std::io::{BufWriter, Write};
use std::panic::{catch_unwind, AssertUnwindSafe};
use std::path::{Path, PathBuf};

/// Deterministic generator derived from VERIF_SEED and a label.
pub fn rng_for(seed: u64, label: &str) -> ChaCha20Rng {
    use sha3::{Digest, Sha3_256};
    let mut h = Sha3_256::new();
    h.update(seed.to_le_bytes());
    h.update(label.as_bytes());
    let d = h.finalize();
    let mut s = [0u8; 32];
    s.copy_from_slice(&d);
    ChaCha20Rng::from_seed(s)
}

pub fn sha3_hex(data: &[u8]) -> String {
    use sha3::{Digest, Sha3_256};
    let d = Sha3_256::digest(data);
    d.iter().map(|b| format!("{:02x}", b)).collect()
}

/// Outcome of a call into the library: a value, or a panic (data, judged by the trace spec).
pub enum Outcome<T> {
    Ret(T),
    Panic(String),
}

thread_local! {
    static LAST_PANIC: std::cell::RefCell<String> = const { std::cell::RefCell::new(String::new()) };
}

pub fn install_panic_hook() {
    std::panic::set_hook(Box::new(|info| {
        let loc = info
            .location()
            .map(|l| format!("{}:{}", l.file(), l.line()))
            .unwrap_or_default();
        let msg = if let Some(s) = info.payload().downcast_ref::<&str>() {
            s.to_string()
        } else if let Some(s) = info.payload().downcast_ref::<String>() {
            s.clone()
        } else {
            String::new()
        };
        if std::env::var("VERIF_DEBUG_PANIC").is_ok() {
            eprintln!("[panic] {} @ {}", msg, loc);
        }
        LAST_PANIC.with(|p| *p.borrow_mut() = format!("{} @ {}", msg, loc));
    }));
}

pub fn guarded<T>(f: impl FnOnce() -> T) -> Outcome<T> {
    match catch_unwind(AssertUnwindSafe(f)) {
        Ok(v) => Outcome::Ret(v),
        Err(_) => Outcome::Panic(LAST_PANIC.with(|p| p.borrow().clone())),
    }
}

/// One ndjson trace file.
pub struct Trace {
    w: BufWriter<File>,
    pub path: PathBuf,
    pub count: usize,
}

impl Trace {
    pub fn create(dir: &Path, name: &str) -> Trace {
        std::fs::create_dir_all(dir).unwrap();
        let path = dir.join(name);
        Trace {
            w: BufWriter::new(File::create(&path).unwrap()),
            path,
            count: 0,
        }
    }
    pub fn emit(&mut self, v: Value) {
        serde_json::to_writer(&mut self.w, &v).unwrap();
        self.w.write_all(b"\n").unwrap();
        self.count += 1;
    }
    pub fn finish(mut self) -> (PathBuf, usize) {
        self.w.flush().unwrap();
        (self.path, self.count)
    }
}

/// Round-robin sharded trace writer: events go to `name.<k>.ndjson`.
pub struct Shards {
    pub shards: Vec<Trace>,
    next: usize,
}
impl Shards {
    pub fn create(dir: &Path, name: &str, k: usize) -> Shards {
        Shards {
            shards: (0..k)
                .map(|i| Trace::create(dir, &format!("{}.{}.ndjson", name, i)))
                .collect(),
            next: 0,
        }
    }
    pub fn emit(&mut self, v: Value) {
        let k = self.shards.len();
        self.shards[self.next % k].emit(v);
        self.next += 1;
    }
    pub fn finish(self) -> usize {
        let mut total = 0;
        for s in self.shards {
            total += s.finish().1;
        }
        total
    }
}

pub fn bytes_json(b: &[u8]) -> Value {
    Value::Array(b.iter().map(|&x| Value::from(x as u64)).collect())
}
pub fn i16s_json(v: &[i16]) -> Value {
    Value::Array(v.iter().map(|&x| Value::from(x as i64)).collect())
}
pub fn i32s_json(v: &[i32]) -> Value {
    Value::Array(v.iter().map(|&x| Value::from(x as i64)).collect())
}
/// 64-bit pattern as four 16-bit words, most significant first (TLC integers are 32-bit).
pub fn u64_words(x: u64) -> Value {
    Value::Array(
        (0..4)
            .rev()
            .map(|i| Value::from((x >> (16 * i)) & 0xffff))
            .collect(),
    )
}
pub fn f64_words(x: f64) -> Value {
    u64_words(x.to_bits())
}

/// Simple argument access: `--key value`.
pub struct Args {
    pub v: Vec<String>,
}
impl Args {
    pub fn from_env() -> Args {
        Args {
            v: std::env::args().collect(),
        }
    }
    pub fn get(&self, key: &str) -> Option<String> {
        self.v
            .iter()
            .position(|a| a == key)
            .and_then(|i| self.v.get(i + 1).cloned())
    }
    pub fn get_or(&self, key: &str, d: &str) -> String {
        self.get(key).unwrap_or_else(|| d.to_string())
    }
    pub fn num(&self, key: &str, d: u64) -> u64 {
        self.get(key).and_then(|s| s.parse().ok()).unwrap_or(d)
    }
    pub fn thorough(&self) -> bool {
        self.get_or("--tier", "quick") == "thorough"
    }
}

// ---------------------------------------------------------------- bit strings

pub fn bits_to_bytes(bits: &[bool], len: usize) -> Vec<u8> {
    let mut out = vec![0u8; len];
    for (i, &b) in bits.iter().enumerate() {
        if b {
            out[i / 8] |= 128 >> (i % 8);
        }
    }
    out
}

pub fn push_field(bits: &mut Vec<bool>, v: u32, w: usize) {
    for i in (0..w).rev() {
        bits.push((v >> i) & 1 == 1);
    }
}

/// The bits of one compressed coefficient with an explicit unary run (may be non-canonical).
pub fn push_coeff_raw(bits: &mut Vec<bool>, sign: bool, low: u32, run: usize) {
    bits.push(sign);
    push_field(bits, low, 7);
    bits.extend(std::iter::repeat(false).take(run));
    bits.push(true);
}
pub fn push_coeff(bits: &mut Vec<bool>, v: i32) {
    let a = v.unsigned_abs();
    push_coeff_raw(bits, v < 0, a & 127, (a >> 7) as usize);
}

/// Harness-side packing of coefficients into a compressed body (Algorithm 17 layout), used to BUILD test inputs
/// independently of the library's own `compress` (which is code under test).  Panics only if the harness asks
/// for something that cannot fit.
pub fn pack_coeffs(v: &[i16], len: usize) -> Vec<u8> {
    let mut bits = vec![];
    for &c in v {
        push_coeff(&mut bits, c as i32);
    }
    assert!(bits.len() <= 8 * len, "harness: body does not fit");
    bits_to_bytes(&bits, len)
}
