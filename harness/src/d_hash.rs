//! C14: hash_to_point on inputs that put the interesting 16-bit chunks into the consumed stream.
use crate::common::*;
use falcon_rust::verif;
use rand::{Rng, RngCore};
use serde_json::{json, Value};
use sha3::digest::{ExtendableOutput, Update, XofReader};
use std::path::PathBuf;

/// The consumed chunks of the SHAKE-256 stream for n coefficients (selection aid only).
fn consumed_chunks(s: &[u8], n: usize) -> Vec<u32> {
    let mut h = sha3::Shake256::default();
    h.update(s);
    let mut rd = h.finalize_xof();
    let mut got = 0;
    let mut chunks = vec![];
    while got < n {
        let mut b = [0u8; 2];
        rd.read(&mut b);
        let t = ((b[0] as u32) << 8) | b[1] as u32;
        chunks.push(t);
        if t < 61445 {
            got += 1;
        }
    }
    chunks
}

fn h2p_event(s: &[u8], tag: &str) -> Value {
    let o512 = match guarded(|| verif::hash_to_point(s, 512)) {
        Outcome::Ret(v) => i16s_json(&v),
        Outcome::Panic(_) => json!([-99999]),
    };
    let o1024 = match guarded(|| verif::hash_to_point(s, 1024)) {
        Outcome::Ret(v) => i16s_json(&v),
        Outcome::Panic(_) => json!([-99999]),
    };
    json!({"ev":"h2p","str":bytes_json(s),"out512":o512,"out1024":o1024,"tag":tag})
}

pub fn c14(args: &Args) {
    let seed = args.num("--seed", 1);
    let thorough = args.thorough();
    let dir = PathBuf::from(args.get_or("--out", "work/c14"));
    let mut out = Shards::create(&dir, "hash", args.num("--shards", 12) as usize);
    let mut rng = rng_for(seed, "c14");
    // lengths around the rate and long inputs
    let lens: Vec<usize> = if thorough {
        vec![0, 1, 2, 40, 41, 134, 135, 136, 137, 138, 270, 271, 272, 273, 274, 408, 1000, 10000]
    } else {
        vec![0, 1, 41, 135, 136, 137, 272, 3000]
    };
    for &l in &lens {
        let mut s = vec![0u8; l];
        rng.fill_bytes(&mut s);
        out.emit(h2p_event(&s, "length"));
    }
    out.emit(h2p_event(&vec![0u8; 136], "zeros"));
    out.emit(h2p_event(&vec![255u8; 135], "ones"));
    // searched inputs: counter strings until the consumed chunks contain the wanted value / position
    type Pred = Box<dyn Fn(&[u32]) -> bool>;
    let wants: Vec<(&str, Pred)> = vec![
        ("chunk-61445", Box::new(|c: &[u32]| c.contains(&61445))),
        ("chunk-61444", Box::new(|c: &[u32]| c.contains(&61444))),
        ("chunk-65535", Box::new(|c: &[u32]| c.contains(&65535))),
        ("chunk-0", Box::new(|c: &[u32]| c.contains(&0))),
        ("chunk-12289", Box::new(|c: &[u32]| c.contains(&12289))),
        ("chunk-49156", Box::new(|c: &[u32]| c.contains(&49156))),
        ("chunk-12288", Box::new(|c: &[u32]| c.contains(&12288))),
        ("reject-first", Box::new(|c: &[u32]| c[0] >= 61445)),
        ("reject-before-last", Box::new(|c: &[u32]| c.len() >= 2 && c[c.len() - 2] >= 61445)),
        ("reject-run-of-2", Box::new(|c: &[u32]| c.windows(2).any(|w| w[0] >= 61445 && w[1] >= 61445))),
        ("many-rejects", Box::new(|c: &[u32]| c.iter().filter(|&&t| t >= 61445).count() >= 50)),
        ("few-rejects", Box::new(|c: &[u32]| c.iter().filter(|&&t| t >= 61445).count() <= 18)),
        // more than a tenth of the chunks rejected: the stream is consumed far beyond n * 65536/61445 chunks
        // (an implementation that squeezes a fixed-size first buffer must continue the SAME stream afterwards)
        ("reject-over-tenth", Box::new(|c: &[u32]| 10 * c.iter().filter(|&&t| t >= 61445).count() > c.len() - c.iter().filter(|&&t| t >= 61445).count())),
    ];
    let base: u64 = rng.gen();
    for (tag, pred) in wants.iter() {
        for n in [512usize, 1024] {
            let mut found = 0;
            let per = if thorough { 8 } else { 1 };
            let mut ctr = 0u64;
            while found < per && ctr < 400_000 {
                let s = format!("{}-{}-{}", tag, base, ctr).into_bytes();
                ctr += 1;
                if pred(&consumed_chunks(&s, n)) {
                    out.emit(h2p_event(&s, tag));
                    found += 1;
                }
            }
        }
    }
    // the chunk alphabet at the edges of every reduction step and type width: kq-1, kq, kq+1 (k = 1..5), 2^j-1, 2^j, 2^j+1,
    // byte patterns -- a greedy cover: strings are kept while they bring a value not seen yet (thorough: the WHOLE 16-bit alphabet)
    {
        let mut wanted: std::collections::BTreeSet<u32> = std::collections::BTreeSet::new();
        if thorough {
            wanted.extend(0..65536u32);
        } else {
            for k in 1..=5u32 {
                wanted.extend([k * 12289 - 1, k * 12289, k * 12289 + 1]);
            }
            for j in 7..=15u32 {
                wanted.extend([(1 << j) - 1, 1 << j, (1 << j) + 1]);
            }
            wanted.extend([0, 1, 2, 255, 256, 0x00ff, 0xff00, 0x0100, 0x80ff, 0xff7f, 0x7f00, 0xfeff, 0xfffe, 65534, 65535, 61443, 61444, 61445, 61446, 24577, 36866, 49155]);
        }
        let mut ctr = 0u64;
        let budget = if thorough { 3_000_000u64 } else { 400_000 };
        let mut kept = 0;
        while !wanted.is_empty() && ctr < budget {
            let s = format!("alphabet-{}-{}", base, ctr).into_bytes();
            ctr += 1;
            let ch = consumed_chunks(&s, 1024);
            let fresh: Vec<u32> = ch.iter().filter(|t| wanted.contains(t)).cloned().collect();
            // thorough: keep a string only while it still brings many new values, then finish the tail value by value
            let need = if thorough { if wanted.len() > 6000 { 40 } else if wanted.len() > 600 { 4 } else { 1 } } else { 1 };
            if fresh.len() >= need {
                for t in fresh {
                    wanted.remove(&t);
                }
                out.emit(h2p_event(&s, "chunk-alphabet"));
                kept += 1;
            }
        }
        eprintln!("[c14] chunk alphabet: {} strings kept, {} values left uncovered after {} candidates", kept, wanted.len(), ctr);
    }
    // the strings with the MOST rejected chunks in a large native search (the stream is consumed furthest beyond the expected
    // length: a fixed first squeeze with a faulty continuation shows here first), for both n
    {
        let budget = if thorough { 4_000_000u64 } else { 300_000 };
        let mut best: [(usize, Vec<u8>); 2] = [(0, vec![]), (0, vec![])];
        for ctr in 0..budget {
            let s = format!("most-rejects-{}-{}", base, ctr).into_bytes();
            let ch = consumed_chunks(&s, 1024);
            let mut got = 0;
            let mut rej512 = 0;
            let mut rej = 0;
            for &t in &ch {
                if t >= 61445 {
                    rej += 1;
                } else {
                    got += 1;
                    if got == 512 {
                        rej512 = rej;
                    }
                }
            }
            if rej512 > best[0].0 {
                best[0] = (rej512, s.clone());
            }
            if rej > best[1].0 {
                best[1] = (rej, s);
            }
        }
        eprintln!("[c14] most rejected chunks found: {} (n=512), {} (n=1024)", best[0].0, best[1].0);
        out.emit(h2p_event(&best[0].1, "most-rejects"));
        out.emit(h2p_event(&best[1].1, "most-rejects"));
    }
    // inputs across the 64 KiB mark (an implementation absorbing in pieces)
    for l in if thorough { vec![65535usize, 65536, 65537, 200_000] } else { vec![65537usize] } {
        let s: Vec<u8> = (0..l).map(|i| (i * 31 % 251) as u8).collect();
        out.emit(h2p_event(&s, "length-64k"));
    }
    // the corpus of extreme streams (offline search, corpus.rs): many rejected chunks early, long runs of rejected chunks
    for (i, tag) in crate::corpus::H2P_EXTREME.iter().take(if thorough { 12 } else { 8 }) {
        out.emit(h2p_event(&crate::corpus::h2p_string(*i), tag));
    }
    // long then short, and the same string twice with another in between (state kept between calls)
    {
        let long: Vec<u8> = (0..5000).map(|i| (i % 253) as u8).collect();
        out.emit(h2p_event(&long, "order-long"));
        out.emit(h2p_event(b"short", "order-short-after-long"));
        out.emit(h2p_event(&[], "order-empty"));
        out.emit(h2p_event(b"short", "order-short-again"));
        out.emit(h2p_event(&long[..136], "order-rate"));
    }
    // salt || message shaped inputs as sign/verify build them
    for i in 0..(if thorough { 1200 } else { 6 }) {
        let mut s = vec![0u8; 40 + (i * 7) % 300];
        rng.fill_bytes(&mut s);
        out.emit(h2p_event(&s, "salt-msg"));
    }
    println!("events {}", out.finish());
}

/// Search tool (not a check): strings salt(40 ASCII digits) || "corpus message" whose SHAKE-256 stream is extreme for Algorithm 3:
/// most rejected chunks among the first 576 / 1152 samples, longest run of consecutive rejected chunks in the stream consumed for
/// n = 1024.  Its output feeds `corpus::H2P_EXTREME`.
pub fn h2psearch(args: &Args) {
    let count = args.num("--count", 1_000_000);
    let start = args.num("--start", 0);
    let nthreads = args.num("--threads", 16);
    let mut handles = vec![];
    for t in 0..nthreads {
        handles.push(std::thread::spawn(move || {
            let (mut best576, mut best1152, mut bestrun, mut bestrun512) = (0usize, 0usize, 0usize, 0usize);
            let mut i = start + t;
            let mut buf = vec![0u8; 2 * 1400];
            while i < start + count {
                let s = format!("{:040}corpus message", i).into_bytes();
                let mut h = sha3::Shake256::default();
                h.update(&s);
                let mut rd = h.finalize_xof();
                rd.read(&mut buf);
                let (mut got, mut rej, mut run, mut maxrun, mut maxrun512, mut rej576, mut rej1152) = (0usize, 0usize, 0usize, 0usize, 0usize, 0usize, 0usize);
                let mut k = 0;
                while got < 1024 && k < 1400 {
                    let tt = ((buf[2 * k] as u32) << 8) | buf[2 * k + 1] as u32;
                    if tt >= 61445 {
                        rej += 1;
                        run += 1;
                        maxrun = maxrun.max(run);
                        if got < 512 {
                            maxrun512 = maxrun512.max(run);
                        }
                    } else {
                        got += 1;
                        run = 0;
                    }
                    k += 1;
                    if k == 576 {
                        rej576 = rej;
                    }
                    if k == 1152 {
                        rej1152 = rej;
                    }
                }
                if rej576 > best576 || rej1152 > best1152 || maxrun > bestrun || maxrun512 > bestrun512 {
                    best576 = best576.max(rej576);
                    best1152 = best1152.max(rej1152);
                    bestrun = bestrun.max(maxrun);
                    bestrun512 = bestrun512.max(maxrun512);
                    if rej576 >= 62 || rej1152 >= 110 || maxrun >= 7 {
                        println!("{{\"i\":{},\"rej576\":{},\"rej1152\":{},\"run1024\":{},\"run512\":{}}}", i, rej576, rej1152, maxrun, maxrun512);
                    }
                }
                i += nthreads;
            }
        }));
    }
    for h in handles {
        h.join().unwrap();
    }
}
