//! Codec drivers (C03, C07): replay of TLC-generated cases into the real compress/decompress, and
//! production-size families recorded as trace events.
use crate::common::*;
use falcon_rust::verif;
use rand::{Rng, RngCore};
use serde_json::{json, Value};
use std::io::BufRead;
use std::path::PathBuf;

fn to_bytes(v: &Value) -> Vec<u8> {
    v.as_array().unwrap().iter().map(|x| x.as_u64().unwrap() as u8).collect()
}
fn to_i16s(v: &Value) -> Vec<i16> {
    v.as_array().unwrap().iter().map(|x| x.as_i64().unwrap() as i16).collect()
}

pub fn dec_outcome(x: &[u8], n: usize) -> (String, Vec<i16>, String) {
    match guarded(|| verif::decompress(x, n)) {
        Outcome::Ret(Some(v)) => ("some".into(), v, String::new()),
        Outcome::Ret(None) => ("none".into(), vec![], String::new()),
        Outcome::Panic(m) => ("panic".into(), vec![], m),
    }
}
pub fn comp_outcome(v: &[i16], l: usize) -> (String, Vec<u8>, String) {
    match guarded(|| verif::compress(v, l)) {
        Outcome::Ret(Some(x)) => ("some".into(), x, String::new()),
        Outcome::Ret(None) => ("none".into(), vec![], String::new()),
        Outcome::Panic(m) => ("panic".into(), vec![], m),
    }
}

pub fn dec_event(x: &[u8], n: usize, tag: &str) -> Value {
    let (res, v, detail) = dec_outcome(x, n);
    json!({"ev":"decompress","x":bytes_json(x),"n":n,"res":res,"v":i16s_json(&v),"tag":tag,"detail":detail})
}
pub fn comp_event(v: &[i16], l: usize, tag: &str) -> Value {
    let (res, x, detail) = comp_outcome(v, l);
    json!({"ev":"compress","v":i16s_json(v),"L":l,"res":res,"x":bytes_json(&x),"tag":tag,"detail":detail})
}

const DIGEST_MOD: i64 = 1000003;

/// spec -> impl: run every TLC-generated record through the real code and compare with the
/// result the specification demands.  Writes `<out>/replay_result.json`.
pub fn replay_codec(args: &Args) {
    let dir = PathBuf::from(args.get("--in").unwrap());
    let out = PathBuf::from(args.get("--out").unwrap());
    let mut cases = 0u64;
    let mut accepted = 0u64;
    let mut mismatches: Vec<Value> = vec![];
    let mut samples: Vec<Value> = vec![];
    let mut files: Vec<_> = std::fs::read_dir(&dir).unwrap().map(|e| e.unwrap().path()).collect();
    files.sort();
    for f in files {
        if !f.file_name().unwrap().to_string_lossy().starts_with("gen_") {
            continue;
        }
        let rd = std::io::BufReader::new(std::fs::File::open(&f).unwrap());
        for line in rd.lines() {
            let line = line.unwrap();
            if line.trim().is_empty() {
                continue;
            }
            let r: Value = serde_json::from_str(&line).unwrap();
            match r["kind"].as_str().unwrap() {
                "decompress" => {
                    cases += 1;
                    let x = to_bytes(&r["x"]);
                    let n = r["n"].as_u64().unwrap() as usize;
                    let (res, v, detail) = dec_outcome(&x, n);
                    let want_ok = r["ok"].as_bool().unwrap();
                    let want_v = to_i16s(&r["v"]);
                    let good = if want_ok { res == "some" && v == want_v } else { res == "none" };
                    if want_ok {
                        accepted += 1;
                        // the accepted vector must compress back to exactly x
                        let (cres, cx, cdetail) = comp_outcome(&want_v, x.len());
                        cases += 1;
                        if !(cres == "some" && cx == x) {
                            mismatches.push(json!({"case":{"kind":"compress","v":r["v"],"L":x.len(),"ok":true,"x":r["x"]},
                                                   "code":{"res":cres,"x":bytes_json(&cx),"detail":cdetail}}));
                        }
                    }
                    if !good {
                        mismatches.push(json!({"case":r,"code":{"res":res,"v":i16s_json(&v),"detail":detail}}));
                    } else if samples.len() < 3 && want_ok {
                        samples.push(json!({"case":r,"code":{"res":res,"v":i16s_json(&v)}}));
                    }
                }
                "compress" => {
                    cases += 1;
                    let v = to_i16s(&r["v"]);
                    let l = r["L"].as_u64().unwrap() as usize;
                    let (res, x, detail) = comp_outcome(&v, l);
                    let want_ok = r["ok"].as_bool().unwrap();
                    let good = if want_ok { res == "some" && x == to_bytes(&r["x"]) } else { res == "none" };
                    if want_ok {
                        accepted += 1;
                    }
                    if !good {
                        mismatches.push(json!({"case":r,"code":{"res":res,"x":bytes_json(&x),"detail":detail}}));
                    }
                }
                "digest" => {
                    let first = r["first"].as_u64().unwrap() as u8;
                    let l = r["L"].as_u64().unwrap() as usize;
                    let per_n = r["per_n"].as_array().unwrap();
                    for (ni, want) in per_n.iter().enumerate() {
                        let n = ni + 1;
                        let mut cnt = 0i64;
                        let mut dig = 0i64;
                        let mut panics: Vec<Vec<u8>> = vec![];
                        let total = 1u64 << (8 * (l - 1));
                        for t in 0..total {
                            let mut x = vec![first];
                            for k in (0..l - 1).rev() {
                                x.push(((t >> (8 * k)) & 0xff) as u8);
                            }
                            cases += 1;
                            let (res, v, _) = dec_outcome(&x, n);
                            if res == "panic" {
                                panics.push(x.clone());
                            }
                            if res == "some" {
                                cnt += 1;
                                let tail = x[1..].iter().fold(0i64, |a, &b| (a * 256 + b as i64) % DIGEST_MOD);
                                let vh = v.iter().enumerate().fold(0i64, |a, (i, &c)| {
                                    (a + (c as i64 + 20000) * (7 * (i as i64 + 1) + 1)) % DIGEST_MOD
                                });
                                dig = (dig + ((tail * 31 + vh) % DIGEST_MOD)) % DIGEST_MOD;
                            }
                        }
                        accepted += cnt as u64;
                        if want["cnt"].as_i64().unwrap() != cnt || want["dig"].as_i64().unwrap() != dig || !panics.is_empty() {
                            mismatches.push(json!({"case":{"kind":"digest","first":first,"L":l,"n":n,"want":want},
                                                   "code":{"cnt":cnt,"dig":dig,"panics":panics.iter().take(3).map(|p| bytes_json(p)).collect::<Vec<_>>()}}));
                        }
                    }
                }
                _ => {}
            }
        }
    }
    let res = json!({"cases":cases,"accepted":accepted,"mismatch_count":mismatches.len(),
                     "mismatches":mismatches.into_iter().take(40).collect::<Vec<_>>(),"samples":samples});
    std::fs::create_dir_all(&out).unwrap();
    std::fs::write(out.join("replay_result.json"), serde_json::to_vec(&res).unwrap()).unwrap();
    println!("cases {} accepted {} mismatches {}", cases, accepted, res["mismatch_count"]);
}

// ---------------------------------------------------------------- production-size families

fn gaussian_vec(rng: &mut impl RngCore, n: usize, sigma: f64) -> Vec<i16> {
    (0..n)
        .map(|_| {
            // Box-Muller
            let u1: f64 = rng.gen::<f64>().max(1e-12);
            let u2: f64 = rng.gen();
            let z = (-2.0 * u1.ln()).sqrt() * (2.0 * std::f64::consts::PI * u2).cos();
            (z * sigma).round() as i16
        })
        .collect()
}

fn total_bits(v: &[i16]) -> usize {
    v.iter().map(|&c| 9 + ((c as i32).unsigned_abs() >> 7) as usize).sum()
}

/// A vector of n entries whose encoding has exactly `bits` bits (bits >= 9n), small entries
/// plus a few large ones.
fn vec_with_bits(rng: &mut impl RngCore, n: usize, bits: usize) -> Vec<i16> {
    let mut v: Vec<i16> = (0..n).map(|_| rng.gen_range(-127..=127)).collect();
    let mut extra = bits - 9 * n;
    let mut i = 0;
    while extra > 0 {
        let r = extra.min(94).min(1 + rng.gen_range(0..94));
        let low = rng.gen_range(0..128) as i32;
        let mag = (r as i32) * 128 + low;
        v[i % n] = if rng.gen() { mag as i16 } else { -(mag as i16) };
        extra -= r;
        i += 1;
    }
    assert_eq!(total_bits(&v), bits);
    v
}

fn raw_body(coeffs: &[(bool, u32, usize)], len: usize, extra_bits: &[bool]) -> Option<Vec<u8>> {
    let mut bits = vec![];
    for &(s, low, run) in coeffs {
        push_coeff_raw(&mut bits, s, low, run);
    }
    bits.extend_from_slice(extra_bits);
    if bits.len() > len * 8 {
        return None;
    }
    Some(bits_to_bytes(&bits, len))
}

/// Stretch the runs of the first coefficients so that coefficient `upto` starts at bit `start`.
fn stretch(v: &mut [(bool, u32, usize)], upto: usize, start: usize) -> bool {
    let base: usize = v[..upto].iter().map(|c| 9 + c.2).sum();
    if start < base {
        return false;
    }
    let mut left = start - base;
    let mut i = 0;
    while left > 0 {
        if i >= upto {
            return false;
        }
        let room = 94 - v[i].2;
        let r = left.min(room);
        v[i].2 += r;
        left -= r;
        i += 1;
    }
    true
}

pub fn codec_families(seed: u64, thorough: bool, out: &mut Shards) {
    let mut rng = rng_for(seed, "c07");
    for &(n, l) in &[(512usize, 625usize), (1024, 1239)] {
        let total = 8 * l;
        // (1) realistic vectors: compress, then decompress the result
        for i in 0..(if thorough { 40 } else { 4 }) {
            let sigma = if i % 4 == 3 { 400.0 } else { 165.0 };
            let v = gaussian_vec(&mut rng, n, sigma);
            out.emit(comp_event(&v, l, "gaussian"));
            if let ("some", x, _) = { let o = comp_outcome(&v, l); (if o.0 == "some" { "some" } else { "x" }, o.1, o.2) } {
                out.emit(dec_event(&x, n, "gaussian-roundtrip"));
                // single bit flips of a valid string
                for _ in 0..(if thorough { 6 } else { 2 }) {
                    let mut y = x.clone();
                    let bit = rng.gen_range(0..total);
                    y[bit / 8] ^= 128 >> (bit % 8);
                    out.emit(dec_event(&y, n, "bitflip"));
                }
            }
        }
        // (2) budget edge: encodings of exactly 8L-1, 8L, 8L+1 bits (and 8L-8, 8L+8)
        for &d in &[-8i64, -1, 0, 1, 8] {
            for _ in 0..(if thorough { 4 } else { 1 }) {
                let v = vec_with_bits(&mut rng, n, (total as i64 + d) as usize);
                out.emit(comp_event(&v, l, "budget-edge"));
                if d <= 0 {
                    let x = comp_outcome(&v, l).1;
                    if !x.is_empty() {
                        out.emit(dec_event(&x, n, "budget-edge-roundtrip"));
                    }
                }
            }
        }
        // last coefficient large with an exact fit (the terminating 1 is the very last bit)
        for &lastmag in &[127i32, 128, 896, 12159] {
            let lastlen = 9 + (lastmag >> 7) as usize;
            let mut v = vec_with_bits(&mut rng, n - 1, total - lastlen);
            v.push(-(lastmag as i16));
            out.emit(comp_event(&v, l, "exact-fit-large-last"));
            let x = comp_outcome(&v, l).1;
            if !x.is_empty() {
                out.emit(dec_event(&x, n, "exact-fit-large-last-roundtrip"));
            }
        }
        // extreme magnitudes
        let mut v = vec![0i16; n];
        for k in 0..40 {
            v[k * 3] = if k % 2 == 0 { 12159 } else { -12159 };
        }
        out.emit(comp_event(&v, l, "extreme"));
        let x = comp_outcome(&v, l).1;
        if !x.is_empty() {
            out.emit(dec_event(&x, n, "extreme-roundtrip"));
        }
        out.emit(comp_event(&vec![12159i16; n], l, "all-extreme"));
        out.emit(comp_event(&[], l, "empty"));
        out.emit(comp_event(&vec![0i16; n], l, "zeros"));
        // (3) raw bodies: unary run of length k at the last / a middle / the first coefficient
        let zero = (false, 0u32, 0usize);
        let runs: Vec<usize> = if thorough {
            (0..=130).chain([200, 254, 255, 256, 257, 300, 390]).collect()
        } else {
            vec![0, 1, 93, 94, 95, 96, 127, 128, 255, 256, 257, 390]
        };
        for &pos in &[n - 1, n / 2, 0] {
            for &run in &runs {
                for &(s, low) in &[(true, 0u32), (false, 127u32), (true, 1u32)] {
                    if !thorough && low == 127 && run % 2 == 1 {
                        continue;
                    }
                    let mut v = vec![zero; n];
                    v[pos] = (s, low, run);
                    if let Some(x) = raw_body(&v, l, &[]) {
                        out.emit(dec_event(&x, n, "run-family"));
                    }
                }
            }
        }
        // (4) minus zero at several positions; set padding bits
        for &pos in &[0, 1, n / 2, n - 2, n - 1] {
            let mut v = vec![zero; n];
            v[pos] = (true, 0, 0);
            out.emit(dec_event(&raw_body(&v, l, &[]).unwrap(), n, "minus-zero"));
        }
        let used = 9 * n;
        let pads: Vec<usize> = if thorough { (0..24).chain([total - used - 1, total - used - 8, total - used - 9]).collect() } else { vec![0, 1, 7, 8, 9, total - used - 1, total - used - 8] };
        for &p in &pads {
            let mut extra = vec![false; p];
            extra.push(true);
            if let Some(x) = raw_body(&vec![zero; n], l, &extra) {
                out.emit(dec_event(&x, n, "padding-bit"));
            }
        }
        // (5) cursor alignment at the end of the buffer: coefficient j (last, or a non-final one)
        // starting `back` bits before the end, for every back in 0..=24
        let backs: Vec<usize> = (0..=(if thorough { 40 } else { 20 })).collect();
        for &back in &backs {
            for &(j, tag) in &[(n - 1, "last-starts-near-end"), (n - 2, "nonfinal-starts-near-end"), (n / 2, "middle-starts-near-end")] {
                if total < back {
                    continue;
                }
                for &(s, low, run, term) in &[(false, 0u32, 0usize, true), (true, 5, 0, true), (false, 0, 3, true), (false, 0, 0, false)] {
                    let mut v = vec![zero; j];
                    if !stretch(&mut v, j, total - back) {
                        continue;
                    }
                    let mut bits = vec![];
                    for &(s, low, run) in &v {
                        push_coeff_raw(&mut bits, s, low, run);
                    }
                    // the coefficient under test, truncated by the buffer end
                    let mut cb = vec![];
                    cb.push(s);
                    push_field(&mut cb, low, 7);
                    cb.extend(std::iter::repeat(false).take(run));
                    if term {
                        cb.push(true);
                    }
                    // remaining coefficients (if any) as zeros
                    for _ in j + 1..n {
                        push_coeff_raw(&mut cb, false, 0, 0);
                    }
                    bits.extend(cb);
                    bits.truncate(total);
                    out.emit(dec_event(&bits_to_bytes(&bits, l), n, tag));
                }
            }
        }
        // (5') run length x bit alignment: a coefficient with a unary run of r whose first bit sits at every alignment mod 8 (the
        // first coefficient's run shifts it), in the middle and as the last coefficient; and an UNTERMINATED run of r zeros that
        // reaches the end of the buffer exactly (a windowed reader refilling at the wrong moment mis-decodes or reads past the end)
        {
            let runs: Vec<usize> = if thorough { (0..=100).collect() } else { vec![2, 6, 7, 8, 9, 15, 16, 17, 31, 32, 33, 47, 48, 56, 63, 64, 65, 72, 80, 92] };
            for &r in &runs {
                for a in 0..8usize {
                    if !thorough && (r + a) % 3 == 0 {
                        continue;
                    }
                    for &pos in &[n / 2 + 1, n - 1] {
                        let mut v = vec![zero; n];
                        v[0].2 = a;
                        v[pos] = (a % 2 == 1, (r as u32 * 37 + a as u32) % 128 | 1, r);
                        if let Some(x) = raw_body(&v, l, &[]) {
                            out.emit(dec_event(&x, n, "run-alignment"));
                        }
                    }
                }
            }
            let unterminated: Vec<usize> = if thorough { (8..=94).collect() } else { (8..=94).step_by(5).collect() };
            for &r in &unterminated {
                let j = n - 1;
                let mut v = vec![zero; j];
                if total < 8 + r || !stretch(&mut v, j, total - 8 - r) {
                    continue;
                }
                let mut bits = vec![];
                for &(s, low, run) in &v {
                    push_coeff_raw(&mut bits, s, low, run);
                }
                bits.push(false);
                push_field(&mut bits, 5, 7);
                bits.extend(std::iter::repeat(false).take(r));
                assert_eq!(bits.len(), total);
                out.emit(dec_event(&bits_to_bytes(&bits, l), n, "unterminated-run-to-end"));
            }
        }
        // (6) too few coefficients present / n mismatch
        out.emit(dec_event(&raw_body(&vec![zero; n - 1], l, &[]).unwrap(), n, "one-short"));
        out.emit(dec_event(&raw_body(&vec![zero; n], l, &[]).unwrap(), n - 1, "n-minus-one"));
        out.emit(dec_event(&vec![0u8; l], n, "all-zero-bytes"));
        out.emit(dec_event(&vec![255u8; l], n, "all-ff-bytes"));
        out.emit(dec_event(&[], n, "empty-buffer"));
        out.emit(dec_event(&[0x00, 0x80], 1, "tiny"));
        // (7) random strings
        for _ in 0..(if thorough { 40 } else { 4 }) {
            let mut x = vec![0u8; l];
            rng.fill_bytes(&mut x);
            out.emit(dec_event(&x, n, "random"));
        }
    }
    // (8) compress at other sizes than the production ones, at the budget edge (a fast path for n in {512, 1024} next to a generic
    // path), and judged compress calls in the order 1024 -> 512 -> 8 -> 1024 (state sized by the first call)
    // (sizes whose encodings pass 2^16 bits included: a bit cursor kept in 16 bits)
    for &n in &[4usize, 7, 8, 64, 100, 256, 2048, 7281, 7282, 8000, 16384] {
        if !thorough && (n == 7 || n == 100 || n == 7281 || n == 16384) {
            continue;
        }
        let l = (9 * n + 7) / 8 + 2 + n / 16;
        for &d in &[-8i64, -1, 0, 1, 8] {
            let bits = (8 * l as i64 + d) as usize;
            if bits < 9 * n {
                continue;
            }
            let v = vec_with_bits(&mut rng, n, bits);
            out.emit(comp_event(&v, l, "budget-edge-other-n"));
            if d <= 0 {
                out.emit(dec_event(&pack_coeffs(&v, l), n, "budget-edge-other-n-roundtrip"));
            }
        }
    }
    // few near-limit coefficients with a long encoding (about 100 bits each): 700 of them pass 2^16 bits
    {
        let n = 700usize;
        let v: Vec<i16> = (0..n).map(|i| if i % 2 == 0 { 12159 - (i % 50) as i16 } else { -(12100 + (i % 59) as i16) }).collect();
        let bits = total_bits(&v);
        for l in [(bits + 7) / 8, (bits + 7) / 8 + 1, bits / 8 - 1] {
            out.emit(comp_event(&v, l, "near-limit-long"));
        }
        out.emit(dec_event(&pack_coeffs(&v, (bits + 7) / 8 + 1), n, "near-limit-long-roundtrip"));
    }
    for &(n, l) in &[(1024usize, 1239usize), (512, 625), (8, 12), (1024, 1239), (512, 625)] {
        let v = gaussian_vec(&mut rng, n, 165.0);
        out.emit(comp_event(&v, l, "order-descending"));
        out.emit(comp_event(&vec_with_bits(&mut rng, n, 8 * l + 1), l, "order-descending-too-long"));
        out.emit(comp_event(&vec_with_bits(&mut rng, n, 8 * l), l, "order-descending-exact"));
    }
    // sequences: a failing decompress followed by a succeeding one, large n then small n, and back (state kept between calls)
    {
        let good512 = pack_coeffs(&vec![3i16; 512], 625);
        let good8 = pack_coeffs(&vec![-2i16; 8], 12);
        let mut bad512 = good512.clone();
        bad512[300] = 0;
        bad512[301] = 0;
        for (x, n, tag) in [(&bad512, 512usize, "seq-bad"), (&good512, 512, "seq-good-after-bad"), (&good8, 8, "seq-small-after-large"),
                            (&bad512, 512, "seq-bad"), (&good8, 8, "seq-small-after-bad"), (&good512, 512, "seq-large-after-small")] {
            out.emit(dec_event(x, n, tag));
        }
    }
    // small odd sizes through the same wrappers (n = 1, 2, 3, 7; short buffers)
    for &(n, l) in &[(1usize, 2usize), (1, 13), (2, 3), (3, 4), (7, 9), (7, 30)] {
        for _ in 0..(if thorough { 60 } else { 10 }) {
            let mut x = vec![0u8; l];
            rng.fill_bytes(&mut x);
            // bias towards decodable: clear some bits
            for b in x.iter_mut() {
                if rng.gen::<bool>() {
                    *b &= rng.gen::<u8>();
                }
            }
            out.emit(dec_event(&x, n, "small-random"));
        }
    }
}

/// Native volume run: random / mutated strings through decompress (and compress on acceptance);
/// only a summary event is recorded, plus full events for every anomaly.
pub fn codec_bulk(seed: u64, cases: u64, out: &mut Shards) {
    let mut rng = rng_for(seed, "c07-bulk");
    let mut panics = 0u64;
    let mut noncanon = 0u64;
    let mut accepted = 0u64;
    for i in 0..cases {
        let (n, l) = if i % 2 == 0 { (512usize, 625usize) } else { (1024, 1239) };
        let x: Vec<u8> = if i % 3 == 0 {
            let mut x = vec![0u8; l];
            rng.fill_bytes(&mut x);
            x
        } else {
            // a valid encoding with a few random bit flips near interesting places
            let v = gaussian_vec(&mut rng, n, 165.0);
            // packed by the harness, not by the code under test
            if total_bits(&v) > 8 * l {
                continue;
            }
            let mut x = pack_coeffs(&v, l);
            let flips = rng.gen_range(0..3);
            for _ in 0..flips {
                let bit = if rng.gen::<bool>() { rng.gen_range(0..8 * l) } else { 8 * l - 1 - rng.gen_range(0..600) };
                x[bit / 8] ^= 128 >> (bit % 8);
            }
            x
        };
        let (res, v, _) = dec_outcome(&x, n);
        if res == "panic" {
            panics += 1;
            if panics <= 5 {
                out.emit(dec_event(&x, n, "bulk-panic"));
            }
        } else if res == "some" {
            accepted += 1;
            let (cres, cx, _) = comp_outcome(&v, l);
            if cres != "some" || cx != x {
                noncanon += 1;
                if noncanon <= 5 {
                    out.emit(dec_event(&x, n, "bulk-noncanonical"));
                    out.emit(comp_event(&v, l, "bulk-noncanonical"));
                }
            }
        }
    }
    out.emit(json!({"ev":"bulk","cases":cases,"panics":panics,"noncanonical":noncanon,"accepted":accepted,"tag":"bulk"}));
}

pub fn c07(args: &Args) {
    let seed = args.num("--seed", 1);
    let dir = PathBuf::from(args.get_or("--out", "work/c07"));
    let mut out = Shards::create(&dir, "codec", args.num("--shards", 12) as usize);
    codec_families(seed, args.thorough(), &mut out);
    codec_bulk(seed, args.num("--bulk", 20000), &mut out);
    println!("events {}", out.finish());
}

/// C01's slice of the codec: s2 vectors INSIDE the verification bound with one or two large coefficients (at the edges of every
/// unary-run length up to what the bound admits), compressed by the code and decompressed again -- an honest signature with such
/// an s2 is astronomically rare but it is an "outcome of the signer's randomness", and it must verify.
pub fn c01_codec(args: &Args) {
    let seed = args.num("--seed", 1);
    let thorough = args.thorough();
    let dir = PathBuf::from(args.get_or("--out", "work/c01codec"));
    let mut out = Shards::create(&dir, "codec", args.num("--shards", 12) as usize);
    let mut rng = rng_for(seed, "c01-codec");
    for &(n, l, bound) in &[(512usize, 625usize, 34034726i64), (1024, 1239, 70265242)] {
        let maxmag = ((bound as f64) * 0.9).sqrt() as i32;
        let mut mags: Vec<i32> = vec![];
        for h in 1..=(maxmag >> 7) {
            if thorough || h <= 4 || h % 4 == 0 || (h + 1) % 8 == 0 || h == (maxmag >> 7) {
                mags.push(h * 128 - 1);
                mags.push(h * 128);
            }
        }
        mags.push(maxmag);
        for (j, &m) in mags.iter().enumerate() {
            for &pos in &[0usize, n / 2, n - 1] {
                if !thorough && (j + pos) % 3 != 0 {
                    continue;
                }
                let mut v = gaussian_vec(&mut rng, n, 90.0);
                v[pos] = if j % 2 == 0 { m as i16 } else { -(m as i16) };
                if j % 5 == 0 {
                    v[(pos + 7) % n] = -(m.min(3500) as i16);
                }
                let norm: i64 = v.iter().map(|&x| (x as i64) * (x as i64)).sum();
                if norm > bound || total_bits(&v) > 8 * l {
                    continue;
                }
                out.emit(comp_event(&v, l, "sig-range-large-coefficient"));
                out.emit(dec_event(&pack_coeffs(&v, l), n, "sig-range-large-coefficient-roundtrip"));
            }
        }
    }
    println!("events {}", out.finish());
}
