//! placeholder, filled in below
