//! C10: many signatures of distinct messages under one key per variant; TLC recomputes the integer statistics.
use crate::common::*;
use crate::variant::*;
use rand::Rng;
use serde_json::json;
use std::path::PathBuf;

/// Selection only: among candidate keys (structured seeds [i; 32] and random ones) the one whose signatures' mean ||s2||^2, over a
/// few signatures, departs most from n sigma^2.  A fault of the tree construction that depends on the key (a branch taken for one
/// key in twenty) is invisible under a random key; the statistics themselves are then computed by TLC on FRESH signatures of the
/// selected key, so the selection does not bias them.
fn most_deviating_key<V: Fv>(seed: u64) -> [u8; 32] {
    use rand::RngCore;
    let mut rng = rng_for(seed, &format!("c10-select-{}", V::N));
    let nstruct = if V::N == 512 { 40 } else { 12 };
    let mut cands: Vec<[u8; 32]> = (0..nstruct).map(|i| [i as u8; 32]).collect();
    for _ in 0..(if V::N == 512 { 24 } else { 4 }) {
        let mut s = [0u8; 32];
        rng.fill_bytes(&mut s);
        cands.push(s);
    }
    let sigma: f64 = if V::N == 512 { 165.7366171829776 } else { 168.38857144654395 };
    let chunks: Vec<Vec<[u8; 32]>> = cands.chunks((cands.len() + 15) / 16).map(|c| c.to_vec()).collect();
    let hs: Vec<_> = chunks.into_iter().map(|ch| std::thread::spawn(move || {
        ch.iter().map(|s| {
            let (sk, _) = V::keygen(*s);
            let mut acc = 0f64;
            let m = 12;
            for i in 0..m {
                let sig = V::sig_to_bytes(&V::sign(format!("selection {}", i).as_bytes(), &sk));
                if let Some(s2) = falcon_rust::verif::decompress(&sig[41..], V::N) {
                    acc += s2.iter().map(|&x| (x as f64) * (x as f64)).sum::<f64>();
                }
            }
            (*s, (acc / (m as f64) / (V::N as f64 * sigma * sigma) - 1.0).abs())
        }).collect::<Vec<_>>()
    })).collect();
    let mut best = ([0u8; 32], -1.0f64);
    for h in hs {
        for (s, dev) in h.join().unwrap() {
            if dev > best.1 {
                best = (s, dev);
            }
        }
    }
    eprintln!("[c10] n={} selected key seed starts {:?}: mean ||s2||^2 off by {:.1}% over 12 signatures", V::N, &best.0[..2], best.1 * 100.0);
    best.0
}

fn run<V: Fv>(seed: u64, keyid: usize, nsig: usize, out: &mut Shards, key_seed: Option<[u8; 32]>) {
    let mut rng = rng_for(seed, &format!("c10-{}-{}", V::N, keyid));
    let (sk, pk) = V::keygen(key_seed.unwrap_or_else(|| rng.gen()));
    let b0 = V::sk_b0(&sk);
    let g: Vec<i16> = b0[0].clone();
    let f: Vec<i16> = b0[1].iter().map(|x| -x).collect();
    let cg: Vec<i16> = b0[2].clone();
    let cf: Vec<i16> = b0[3].iter().map(|x| -x).collect();
    let pkb = V::pk_to_bytes(&pk);
    let key = json!({"ev":"mkey","n":V::N,"key":keyid,"f":i16s_json(&f),"g":i16s_json(&g),"F":i16s_json(&cf),"G":i16s_json(&cg),"pk":bytes_json(&pkb),"tag":"key"});
    // every shard gets the key event first
    let k = out.shards.len();
    for s in out.shards.iter_mut() {
        s.emit(key.clone());
    }
    let _ = k;
    // a few calls whose FIRST candidate is far out (scripted generator prefix, as in the C01 driver): the signer must
    // reject it on the norm test, so the emitted signature is still inside the bound (C10's last clause) and -- coming
    // from real entropy after the retry -- an ordinary sample for the statistics
    {
        use falcon_rust::verif::Plan;
        const RCDT12: [u128; 3] = [3024686241123004913666, 1564742784480091954050, 636254429462080897535];
        for period in [3usize, 4, 6, 10] {
            let mut sc: Vec<u8> = (0..72).map(|i| (i * 13 + period) as u8).collect();
            for k in 0..2 * V::N {
                let z0 = if k % period == 0 { 2 } else { 1 };
                sc.extend(&RCDT12[z0].to_be_bytes()[7..16]);
                sc.push(((k * 7 + k / 5) % 2) as u8);
                sc.extend([0u8; 7]);
            }
            let msg = format!("far first candidate, period {} key {}", period, keyid).into_bytes();
            let (sigb, _, _) = crate::d_sign::sign_with_plan::<V>(&msg, &sk, Plan { script: sc, ..Default::default() });
            if let Some(b) = sigb {
                out.emit(json!({"ev":"msig","n":V::N,"key":keyid,"msg":bytes_json(&msg),"sig":bytes_json(&b),"tag":"sig-far-first-candidate"}));
            }
        }
    }
    for i in 0..nsig {
        let msg = format!("distinct message {} for key {}", i, keyid).into_bytes();
        let sig = V::sig_to_bytes(&V::sign(&msg, &sk));
        out.emit(json!({"ev":"msig","n":V::N,"key":keyid,"msg":bytes_json(&msg),"sig":bytes_json(&sig),"tag":"sig"}));
    }
}

pub fn c10(args: &Args) {
    let seed = args.num("--seed", 1);
    let dir = PathBuf::from(args.get_or("--out", "work/c10"));
    let shards = args.num("--shards", 14) as usize;
    let n512 = args.num("--n512", 196) as usize;
    let n1024 = args.num("--n1024", 98) as usize;
    let keys = args.num("--keys", 1) as usize;
    for kid in 0..keys {
        let mut out = Shards::create(&dir, &format!("mom512k{}", kid), shards);
        run::<V512>(seed, kid, n512, &mut out, None);
        out.finish();
        let mut out = Shards::create(&dir, &format!("mom1024k{}", kid), shards);
        run::<V1024>(seed, kid, n1024, &mut out, None);
        out.finish();
    }
    // one more key per variant: the most deviating of a set of candidates (selection above), judged on fresh signatures
    {
        let s5 = most_deviating_key::<V512>(seed);
        let mut out = Shards::create(&dir, &format!("mom512k{}", keys), shards);
        run::<V512>(seed, keys, n512, &mut out, Some(s5));
        out.finish();
        let s10 = most_deviating_key::<V1024>(seed);
        let mut out = Shards::create(&dir, &format!("mom1024k{}", keys), shards);
        run::<V1024>(seed, keys, n1024, &mut out, Some(s10));
        out.finish();
    }
    println!("done");
}
