//! C10: many signatures of distinct messages under one key per variant; TLC recomputes the integer statistics.
use crate::common::*;
use crate::variant::*;
use rand::Rng;
use serde_json::json;
use std::path::PathBuf;

fn run<V: Fv>(seed: u64, keyid: usize, nsig: usize, out: &mut Shards) {
    let mut rng = rng_for(seed, &format!("c10-{}-{}", V::N, keyid));
    let (sk, pk) = V::keygen(rng.gen());
    let b0 = V::sk_b0(&sk);
    let g: Vec<i16> = b0[0].clone();
    let f: Vec<i16> = b0[1].iter().map(|x| -x).collect();
    let cg: Vec<i16> = b0[2].clone();
    let cf: Vec<i16> = b0[3].iter().map(|x| -x).collect();
    let pkb = V::pk_to_bytes(&pk);
    let key = json!({"ev":"mkey","n":V::N,"key":keyid,"f":i16s_json(&f),"g":i16s_json(&g),"F":i16s_json(&cf),"G":i16s_json(&cg),"pk":bytes_json(&pkb),"tag":"key"});
    // every shard gets the key event first
    let k = out.shards.len();
    for s in out.shards.iter_mut() {
        s.emit(key.clone());
    }
    let _ = k;
    // a few calls whose FIRST candidate is far out (scripted generator prefix, as in the C01 driver): the signer must
    // reject it on the norm test, so the emitted signature is still inside the bound (C10's last clause) and -- coming
    // from real entropy after the retry -- an ordinary sample for the statistics
    {
        use falcon_rust::verif::Plan;
        const RCDT12: [u128; 3] = [3024686241123004913666, 1564742784480091954050, 636254429462080897535];
        for period in [3usize, 4, 6, 10] {
            let mut sc: Vec<u8> = (0..72).map(|i| (i * 13 + period) as u8).collect();
            for k in 0..2 * V::N {
                let z0 = if k % period == 0 { 2 } else { 1 };
                sc.extend(&RCDT12[z0].to_be_bytes()[7..16]);
                sc.push(((k * 7 + k / 5) % 2) as u8);
                sc.extend([0u8; 7]);
            }
            let msg = format!("far first candidate, period {} key {}", period, keyid).into_bytes();
            let (sigb, _, _) = crate::d_sign::sign_with_plan::<V>(&msg, &sk, Plan { script: sc, ..Default::default() });
            if let Some(b) = sigb {
                out.emit(json!({"ev":"msig","n":V::N,"key":keyid,"msg":bytes_json(&msg),"sig":bytes_json(&b),"tag":"sig-far-first-candidate"}));
            }
        }
    }
    for i in 0..nsig {
        let msg = format!("distinct message {} for key {}", i, keyid).into_bytes();
        let sig = V::sig_to_bytes(&V::sign(&msg, &sk));
        out.emit(json!({"ev":"msig","n":V::N,"key":keyid,"msg":bytes_json(&msg),"sig":bytes_json(&sig),"tag":"sig"}));
    }
}

pub fn c10(args: &Args) {
    let seed = args.num("--seed", 1);
    let dir = PathBuf::from(args.get_or("--out", "work/c10"));
    let shards = args.num("--shards", 14) as usize;
    let n512 = args.num("--n512", 196) as usize;
    let n1024 = args.num("--n1024", 98) as usize;
    let keys = args.num("--keys", 1) as usize;
    for kid in 0..keys {
        let mut out = Shards::create(&dir, &format!("mom512k{}", kid), shards);
        run::<V512>(seed, kid, n512, &mut out);
        out.finish();
        let mut out = Shards::create(&dir, &format!("mom1024k{}", kid), shards);
        run::<V1024>(seed, kid, n1024, &mut out);
        out.finish();
    }
    println!("done");
}
