pub fn hello() {}
