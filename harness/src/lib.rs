//! Conformance harness for falcon-rust: drives the real library and records traces for TLC.
//! Nothing in this crate judges a property: drivers select and record, TLC decides.
pub mod common;
pub mod corpus;
pub mod craft;
pub mod variant;

pub mod d_codec;
pub mod d_decode;
pub mod d_sign;
pub mod d_poly;
pub mod d_replay;
pub mod d_solve;
pub mod d_moments;
pub mod d_fft;
pub mod d_interop;
pub mod d_babai;
pub mod d_sampler;
pub mod d_keys;
pub mod d_field;
pub mod d_hash;
pub mod d_system;
pub mod d_verify;
