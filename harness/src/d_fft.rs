//! C13: the floating-point transform layer against exact integer ground truth.
use crate::common::*;
use falcon_rust::verif;
use rand::Rng;
use serde_json::{json, Value};
use std::path::PathBuf;

type C = (f64, f64);
fn lift(a: &[i64]) -> Vec<C> {
    a.iter().map(|&x| (x as f64, 0.0)).collect()
}
/// real parts as (R, rho): R = round(v), rho = round((v - R) * 2^30); imaginary parts as rho only (should be ~0)
fn quant(v: &[C]) -> (Vec<i64>, Vec<i64>, i64) {
    let mut r = vec![];
    let mut rho = vec![];
    let mut maxim: f64 = 0.0;
    for &(re, im) in v {
        let rr = re.round();
        r.push(rr.clamp(-2.0e9, 2.0e9) as i64);
        rho.push(((re - rr) * 1073741824.0).round().clamp(-2.0e9, 2.0e9) as i64);
        maxim = maxim.max(im.abs());
    }
    (r, rho, (maxim * 1073741824.0).round().min(2.0e9) as i64)
}
fn comp_event(kind: &str, n: usize, a: &[i64], b: &[i64], v: Outcome<Vec<C>>, tag: &str) -> Value {
    match v {
        Outcome::Ret(v) => {
            let (r, rho, im) = quant(&v);
            json!({"ev":"fftcomp","kind":kind,"n":n,"a":a,"b":b,"R":r,"rho":rho,"maxim":im,"len":v.len(),"panic":false,"tag":tag})
        }
        Outcome::Panic(_) => json!({"ev":"fftcomp","kind":kind,"n":n,"a":a,"b":b,"R":[],"rho":[],"maxim":0,"len":0,"panic":true,"tag":tag}),
    }
}

fn families(rng: &mut impl Rng, n: usize, thorough: bool) -> Vec<(Vec<i64>, Vec<i64>, &'static str)> {
    // exact products must fit 31 bits: n * max|a| * max|b| < 2^31
    let mut out = vec![];
    let amax: i64 = 1 << 14;
    let bmax_dense: i64 = (((1i64 << 31) - 1) / (n as i64 * amax)).min(1 << 10).max(1);
    let dense = |rng: &mut dyn rand::RngCore, m: i64, n: usize| -> Vec<i64> { (0..n).map(|_| if m == 0 { 0 } else { (rng.next_u64() % (2 * m as u64 + 1)) as i64 - m }).collect() };
    out.push((dense(rng, amax, n), dense(rng, bmax_dense, n), "dense"));
    out.push(((0..n).map(|i| if i % 2 == 0 { amax } else { -amax }).collect(), vec![bmax_dense; n], "all-max"));
    // sparse extreme: few entries at the property's full range
    let k = ((1i64 << 31) / (amax * (1 << 10))).min(n as i64).max(1) as usize; // number of non-zeros so that products fit
    let mut a = vec![0i64; n];
    let mut b = vec![0i64; n];
    for t in 0..k.min(n) {
        a[(t * 7) % n] = if t % 2 == 0 { amax } else { -amax };
    }
    b[n - 1] = 1 << 10;
    b[0] = -(1 << 10);
    out.push((a, b, "sparse-extreme"));
    let mut e = vec![0i64; n];
    e[0] = 1;
    out.push((e.clone(), e.clone(), "unit"));
    out.push((vec![0i64; n], dense(rng, 5, n), "zero"));
    // structured inputs: self-adjoint (a_i = -a_(n-i): purely real spectrum, what ffLDL splits), anti-self-adjoint, even-only,
    // odd-only, constant, and monomials x^k * x^j (norms 1: the bound is absolute 2^-30, every twiddle is exercised)
    {
        let base = dense(rng, 3000, n);
        let mut sa = base.clone();
        let mut asa = base.clone();
        for i in 1..n {
            if i < n - i {
                sa[n - i] = -base[i];
                asa[n - i] = base[i];
            }
        }
        if n >= 2 {
            sa[n / 2] = 0;
        }
        asa[0] = 0;
        out.push((sa, dense(rng, 100, n), "self-adjoint"));
        out.push((asa, dense(rng, 100, n), "anti-self-adjoint"));
        out.push(((0..n).map(|i| if i % 2 == 0 { base[i] } else { 0 }).collect(), dense(rng, 100, n), "even-only"));
        out.push(((0..n).map(|i| if i % 2 == 1 { base[i] } else { 0 }).collect(), dense(rng, 100, n), "odd-only"));
        out.push((vec![777i64; n], vec![-3i64; n], "constant"));
        for (k, j) in [(1usize, n - 1), (n / 2, n / 2), (n - 1, n - 1), (n / 3, n / 5 + 1)] {
            let mut a = vec![0i64; n];
            let mut b = vec![0i64; n];
            a[k % n] = 1;
            b[j % n] = 1;
            out.push((a, b, "monomials"));
        }
    }
    if thorough {
        for _ in 0..12 {
            out.push((dense(rng, 200, n), dense(rng, 200, n), "signing-range"));
        }
        for _ in 0..8 {
            out.push((dense(rng, amax, n), dense(rng, bmax_dense, n), "dense"));
        }
    }
    out
}

fn words_of(v: &[C]) -> Value {
    Value::Array(v.iter().map(|&(re, im)| json!([f64_words(re), f64_words(im)])).collect())
}

/// A FRESH process in which several threads, released together, make the process's first complex inverse transform / split at
/// n = 1024 (lazily initialised process-wide state must be complete for every thread that sees it).
fn first_use_child(seed: u64, proc_id: u64, out_path: &str) {
    let nthreads = 8usize;
    let barrier = std::sync::Arc::new(std::sync::Barrier::new(nthreads));
    let mut hs = vec![];
    for t in 0..nthreads {
        let barrier = barrier.clone();
        hs.push(std::thread::spawn(move || {
            crate::common::install_panic_hook();
            let mut rng = rng_for(seed, &format!("c13-first-use-{}-{}", proc_id, t));
            let n = 1024usize;
            let a: Vec<i64> = (0..n).map(|_| rng.gen_range(-(1i64 << 14)..=(1 << 14))).collect();
            let fa = lift(&a);
            barrier.wait();
            let r1 = guarded(|| verif::cifft(&verif::cfft(&fa)));
            let r2 = guarded(|| {
                let (s0, s1) = verif::csplit(&verif::cfft(&fa));
                verif::cifft(&verif::cmerge(&s0, &s1))
            });
            vec![comp_event("roundtrip", n, &a, &[], r1, "first-use-concurrent"), comp_event("mergesplit", n, &a, &[], r2, "first-use-concurrent")]
        }));
    }
    let mut s = String::new();
    for h in hs {
        for e in h.join().unwrap() {
            s.push_str(&serde_json::to_string(&e).unwrap());
            s.push('\n');
        }
    }
    std::fs::write(out_path, s).unwrap();
}

pub fn c13(args: &Args) {
    let seed = args.num("--seed", 1);
    let thorough = args.thorough();
    if let Some(o) = args.get("--child-out") {
        first_use_child(seed, args.num("--proc", 1), &o);
        return;
    }
    let dir = PathBuf::from(args.get_or("--out", "work/c13"));
    let mut out = Shards::create(&dir, "fft", args.num("--shards", 12) as usize);
    let mut rng = rng_for(seed, "c13");
    out.emit(json!({"ev":"ctable","table":words_of(&verif::complex_table_powers()),"tag":"table"}));
    for w in 1..=10usize {
        let n = 1usize << w;
        for (a, b, tag) in families(&mut rng, n, thorough) {
            let (fa, fb) = (lift(&a), lift(&b));
            out.emit(comp_event("mul", n, &a, &b, guarded(|| verif::cifft(&verif::chadamard_mul(&verif::cfft(&fa), &verif::cfft(&fb)))), tag));
            out.emit(comp_event("roundtrip", n, &a, &[], guarded(|| verif::cifft(&verif::cfft(&fa))), tag));
            if n >= 2 {
                // merge: a = interleave(a0, a1)
                let a0: Vec<i64> = (0..n / 2).map(|i| a[2 * i]).collect();
                let a1: Vec<i64> = (0..n / 2).map(|i| a[2 * i + 1]).collect();
                out.emit(comp_event("merge", n, &a, &[], guarded(|| verif::cifft(&verif::cmerge(&verif::cfft(&lift(&a0)), &verif::cfft(&lift(&a1))))), tag));
                // split: (ifft s0, ifft s1) concatenated must be (a_even, a_odd)
                out.emit(comp_event("split", n, &a, &[], guarded(|| {
                    let (s0, s1) = verif::csplit(&verif::cfft(&fa));
                    let mut v = verif::cifft(&s0);
                    v.extend(verif::cifft(&s1));
                    v
                }), tag));
                out.emit(comp_event("mergesplit", n, &a, &[], guarded(|| {
                    let (s0, s1) = verif::csplit(&verif::cfft(&fa));
                    verif::cifft(&verif::cmerge(&s0, &s1))
                }), tag));
            }
        }
    }
    // non-integer inputs: a / 2^s for integer vectors a (exact in binary64), results scaled back by the exact power of two before
    // they are quantised -- the ground truth and the relative tolerance are those of the integer vectors.  Signing transforms
    // targets c/q * F-hat, not integers: a staging step that is exact on integers, or an absolute threshold, shows only here.
    for w in [1usize, 3, 6, 9, 10] {
        let n = 1usize << w;
        for (amax, bmax, sh, tag) in [(100i64, 50i64, 30i32, "dyadic-2^-30"), (1 << 14, 1 << 6, 24, "dyadic-2^-24"), (1, 1, 40, "dyadic-2^-40-units")] {
            let a: Vec<i64> = (0..n).map(|i| if amax == 1 { (i == n / 3) as i64 } else { rng.gen_range(-amax..=amax) }).collect();
            let b: Vec<i64> = (0..n).map(|i| if bmax == 1 { (i == n - 1) as i64 } else { rng.gen_range(-bmax..=bmax) }).collect();
            let sc = (2.0f64).powi(-sh);
            let up = (2.0f64).powi(sh);
            let fa: Vec<C> = a.iter().map(|&x| (x as f64 * sc, 0.0)).collect();
            let fb: Vec<C> = b.iter().map(|&x| (x as f64 * sc, 0.0)).collect();
            let scale = |v: Vec<C>, f: f64| -> Vec<C> { v.into_iter().map(|(re, im)| (re * f, im * f)).collect() };
            out.emit(comp_event("mul", n, &a, &b, guarded(|| scale(verif::cifft(&verif::chadamard_mul(&verif::cfft(&fa), &verif::cfft(&fb))), up * up)), tag));
            out.emit(comp_event("roundtrip", n, &a, &[], guarded(|| scale(verif::cifft(&verif::cfft(&fa)), up)), tag));
            if n >= 2 {
                out.emit(comp_event("mergesplit", n, &a, &[], guarded(|| {
                    let (s0, s1) = verif::csplit(&verif::cfft(&fa));
                    scale(verif::cifft(&verif::cmerge(&s0, &s1)), up)
                }), tag));
                out.emit(comp_event("split", n, &a, &[], guarded(|| {
                    let (s0, s1) = verif::csplit(&verif::cfft(&fa));
                    let mut v = verif::cifft(&s0);
                    v.extend(verif::cifft(&s1));
                    scale(v, up)
                }), tag));
            }
        }
    }
    // prefix-related inputs in consecutive calls, growing then shrinking
    {
        let v: Vec<i64> = (0..1024).map(|i| if i == 0 { 1 } else { rng.gen_range(-300..=300) }).collect();
        let mut order: Vec<usize> = (1..=10).collect();
        order.extend((1..=9).rev());
        for w in order {
            let n = 1usize << w;
            let a = v[..n].to_vec();
            let fa = lift(&a);
            out.emit(comp_event("roundtrip", n, &a, &[], guarded(|| verif::cifft(&verif::cfft(&fa))), "prefix"));
            out.emit(comp_event("mul", n, &a, &a, guarded(|| verif::cifft(&verif::chadamard_mul(&verif::cfft(&fa), &verif::cfft(&fa)))), "prefix"));
        }
    }
    // descending and interleaved lengths (state cached from a previous, different length)
    let mut order: Vec<usize> = (1..=10).rev().collect();
    order.extend([3usize, 10, 1, 9, 2, 8, 10, 5]);
    for w in order {
        let n = 1usize << w;
        let a: Vec<i64> = (0..n).map(|_| rng.gen_range(-200..=200)).collect();
        let b: Vec<i64> = (0..n).map(|_| rng.gen_range(-200..=200)).collect();
        let (fa, fb) = (lift(&a), lift(&b));
        out.emit(comp_event("mul", n, &a, &b, guarded(|| verif::cifft(&verif::chadamard_mul(&verif::cfft(&fa), &verif::cfft(&fb)))), "order"));
        out.emit(comp_event("split", n, &a, &[], guarded(|| {
            let (s0, s1) = verif::csplit(&verif::cfft(&fa));
            let mut v = verif::cifft(&s0);
            v.extend(verif::cifft(&s1));
            v
        }), "order"));
        out.emit(comp_event("mergesplit", n, &a, &[], guarded(|| {
            let (s0, s1) = verif::csplit(&verif::cfft(&fa));
            verif::cifft(&verif::cmerge(&s0, &s1))
        }), "order"));
    }
    // fresh processes whose first transforms run concurrently on 8 threads
    {
        let exe = std::env::current_exe().unwrap();
        let nproc = if thorough { 24 } else { 8 };
        let mut kids = vec![];
        for pid in 0..nproc {
            let o = dir.join(format!("firstuse{}.tmp", pid));
            let k = std::process::Command::new(&exe).arg("c13").arg("--seed").arg(seed.to_string()).arg("--proc").arg(pid.to_string())
                .arg("--child-out").arg(&o).spawn().unwrap();
            kids.push((k, o));
            if kids.len() % 4 == 0 {
                for (k, _) in kids.iter_mut() {
                    let _ = k.wait();
                }
            }
        }
        for (mut k, o) in kids {
            let _ = k.wait();
            if let Ok(s) = std::fs::read_to_string(&o) {
                for l in s.lines() {
                    if let Ok(v) = serde_json::from_str::<Value>(l) {
                        out.emit(v);
                    }
                }
            }
            let _ = std::fs::remove_file(&o);
        }
    }
    println!("events {}", out.finish());
}
