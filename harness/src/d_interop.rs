//! C16: three-way interoperability with the vendored PQClean build (pqcrypto-falcon).
use crate::common::*;
use crate::d_verify::honest_event;
use crate::variant::*;
use pqcrypto_traits::sign::{DetachedSignature as _, PublicKey as _, SecretKey as _};
use rand::{Rng, RngCore};
use serde_json::{json, Value};
use std::path::PathBuf;

pub trait RefImpl {
    fn keypair() -> (Vec<u8>, Vec<u8>); // (pk bytes, sk bytes)
    fn sign(msg: &[u8], skb: &[u8]) -> Option<Vec<u8>>;
    fn verify(msg: &[u8], sig: &[u8], pkb: &[u8]) -> bool;
    fn pk_ok(pkb: &[u8]) -> bool;
    fn sk_ok(skb: &[u8]) -> bool;
}

macro_rules! impl_ref {
    ($name:ident, $m:ident) => {
        pub struct $name;
        impl RefImpl for $name {
            fn keypair() -> (Vec<u8>, Vec<u8>) {
                let (pk, sk) = pqcrypto_falcon::$m::keypair();
                (pk.as_bytes().to_vec(), sk.as_bytes().to_vec())
            }
            fn sign(msg: &[u8], skb: &[u8]) -> Option<Vec<u8>> {
                let sk = pqcrypto_falcon::$m::SecretKey::from_bytes(skb).ok()?;
                let s = pqcrypto_falcon::$m::detached_sign(msg, &sk);
                if s.as_bytes().is_empty() {
                    None
                } else {
                    Some(s.as_bytes().to_vec())
                }
            }
            fn verify(msg: &[u8], sig: &[u8], pkb: &[u8]) -> bool {
                let pk = match pqcrypto_falcon::$m::PublicKey::from_bytes(pkb) {
                    Ok(p) => p,
                    Err(_) => return false,
                };
                let s = match pqcrypto_falcon::$m::DetachedSignature::from_bytes(sig) {
                    Ok(s) => s,
                    Err(_) => return false,
                };
                pqcrypto_falcon::$m::verify_detached_signature(&s, msg, &pk).is_ok()
            }
            fn pk_ok(pkb: &[u8]) -> bool {
                pqcrypto_falcon::$m::PublicKey::from_bytes(pkb).is_ok()
            }
            fn sk_ok(skb: &[u8]) -> bool {
                pqcrypto_falcon::$m::SecretKey::from_bytes(skb).is_ok()
            }
        }
    };
}
impl_ref!(Ref512, falcon512);
impl_ref!(Ref1024, falcon1024);

/// our fixed-length signature -> the reference's: re-label the header (0x59 -> 0x39, 0x5a -> 0x3a), strip zero padding
pub fn to_ref_sig(b: &[u8]) -> Vec<u8> {
    let mut v = b.to_vec();
    v[0] = 0x30 | (v[0] & 0x0f);
    while v.len() > 41 && *v.last().unwrap() == 0 {
        v.pop();
    }
    v
}
/// the reference's signature -> ours: re-label, zero-pad to the fixed length
pub fn from_ref_sig<V: Fv>(b: &[u8]) -> Vec<u8> {
    let mut v = b.to_vec();
    if !v.is_empty() {
        v[0] = 0x50 | (v[0] & 0x0f);
    }
    if v.len() < V::SIG_LEN {
        v.resize(V::SIG_LEN, 0);
    }
    v
}

fn cross(kind: &str, n: usize, ok: bool, detail: &str) -> Value {
    json!({"ev":"cross","kind":kind,"n":n,"ok":ok,"detail":detail,"tag":kind})
}

fn interop_variant<V: Fv, R: RefImpl>(seed: u64, nkeys: usize, nmsgs: usize, heavy: &mut Shards, light: &mut Shards) {
    let mut rng = rng_for(seed, &format!("c16-{}", V::N));
    for ki in 0..nkeys {
        // --- a key pair made here
        let (sk, pk) = V::keygen(rng.gen());
        let pkb = V::pk_to_bytes(&pk);
        let skb = V::sk_to_bytes(&sk);
        light.emit(cross("ref-accepts-our-pk-bytes", V::N, R::pk_ok(&pkb), ""));
        light.emit(cross("ref-accepts-our-sk-bytes", V::N, R::sk_ok(&skb), ""));
        // --- a key pair made by the reference
        let (rpkb, rskb) = R::keypair();
        let our_rpk = V::pk_from_bytes(&rpkb);
        let our_rsk = guarded(|| V::sk_from_bytes(&rskb));
        light.emit(cross("we-decode-ref-pk", V::N, our_rpk.is_ok(), ""));
        light.emit(cross("ref-pk-reencodes-identically", V::N, our_rpk.as_ref().map(|k| V::pk_to_bytes(k) == rpkb).unwrap_or(false), ""));
        let our_rsk = match our_rsk {
            Outcome::Ret(Ok(k)) => Some(k),
            _ => None,
        };
        light.emit(cross("we-decode-ref-sk", V::N, our_rsk.is_some(), ""));
        light.emit(cross("ref-sk-reencodes-identically", V::N, our_rsk.as_ref().map(|k| V::sk_to_bytes(k) == rskb).unwrap_or(false), ""));
        if let Some(k) = &our_rsk {
            // the public key we derive from the reference's secret key is the reference's public key
            light.emit(cross("pk-from-ref-sk-equals-ref-pk", V::N, V::pk_to_bytes(&V::pk_from_sk(k)) == rpkb, ""));
        }
        for mi in 0..nmsgs {
            let mut msg = vec![0u8; [0usize, 1, 33, 136, 500, 95, 96, 97, 232, 70000][(ki * 5 + mi) % 10]];
            rng.fill_bytes(&mut msg);
            // (1) signed here (our key) -> verified by the reference under our public-key bytes
            let sig = V::sig_to_bytes(&V::sign(&msg, &sk));
            light.emit(cross("ref-verifies-our-signature", V::N, R::verify(&msg, &to_ref_sig(&sig), &pkb), ""));
            heavy.emit(honest_event::<V>(&msg, &sig, &pkb, "ours-our-key"));
            // (2) signed by the reference (its key) -> verified here
            if let Some(rsig) = R::sign(&msg, &rskb) {
                let ours = from_ref_sig::<V>(&rsig);
                let v = match (V::sig_from_bytes(&ours), &our_rpk) {
                    (Ok(s), Ok(p)) => V::verify(&msg, &s, p),
                    _ => false,
                };
                light.emit(cross("we-verify-ref-signature", V::N, v, &format!("ref sig len {}", rsig.len())));
                heavy.emit(honest_event::<V>(&msg, &ours, &rpkb, "ref-ref-key"));
                // padding / relabelling round trip is the identity on reference signatures
                light.emit(cross("reframe-roundtrip", V::N, to_ref_sig(&ours) == rsig, ""));
            } else {
                light.emit(cross("ref-signs-with-its-key", V::N, false, ""));
            }
            // (3) signed here with the reference's secret key (imported) -> verified by the reference
            if let Some(k) = &our_rsk {
                let sig = V::sig_to_bytes(&V::sign(&msg, k));
                light.emit(cross("ref-verifies-our-signature-under-ref-key", V::N, R::verify(&msg, &to_ref_sig(&sig), &rpkb), ""));
                heavy.emit(honest_event::<V>(&msg, &sig, &rpkb, "ours-ref-key"));
            }
            // (4) signed by the reference with our secret key (exported) -> verified here
            if let Some(rsig) = R::sign(&msg, &skb) {
                let ours = from_ref_sig::<V>(&rsig);
                let v = match V::sig_from_bytes(&ours) {
                    Ok(s) => V::verify(&msg, &s, &pk),
                    _ => false,
                };
                light.emit(cross("we-verify-ref-signature-under-our-key", V::N, v, ""));
                heavy.emit(honest_event::<V>(&msg, &ours, &pkb, "ref-our-key"));
            } else {
                light.emit(cross("ref-signs-with-our-key", V::N, false, ""));
            }
        }
    }
}

/// Volume: many fresh signatures in both directions, cross-verified natively; one summary event per direction,
/// every failing exchange promoted to a heavy event so that TLC says which side departs from the specification.
fn interop_bulk<V: Fv, R: RefImpl>(seed: u64, count: usize, heavy: &mut Shards, light: &mut Shards) {
    let mut rng = rng_for(seed, &format!("c16-bulk-{}", V::N));
    let (sk, pk) = V::keygen(rng.gen());
    let pkb = V::pk_to_bytes(&pk);
    let (rpkb, rskb) = R::keypair();
    let our_rpk = V::pk_from_bytes(&rpkb).ok();
    let (mut f1, mut f2) = (0usize, 0usize);
    for i in 0..count {
        let msg = format!("bulk message {}", i).into_bytes();
        let sig = V::sig_to_bytes(&V::sign(&msg, &sk));
        if !R::verify(&msg, &to_ref_sig(&sig), &pkb) {
            f1 += 1;
            if f1 <= 3 {
                heavy.emit(honest_event::<V>(&msg, &sig, &pkb, "bulk-ref-rejected-ours"));
            }
        }
        if let (Some(rsig), Some(p)) = (R::sign(&msg, &rskb), &our_rpk) {
            let ours = from_ref_sig::<V>(&rsig);
            let ok = V::sig_from_bytes(&ours).map(|s| V::verify(&msg, &s, p)).unwrap_or(false);
            if !ok {
                f2 += 1;
                if f2 <= 3 {
                    heavy.emit(honest_event::<V>(&msg, &ours, &rpkb, "bulk-we-rejected-ref"));
                }
            }
        } else {
            f2 += 1;
        }
    }
    light.emit(cross("bulk-ref-verifies-our-signatures", V::N, f1 == 0, &format!("{} of {} rejected", f1, count)));
    light.emit(cross("bulk-we-verify-ref-signatures", V::N, f2 == 0, &format!("{} of {} rejected", f2, count)));
}

/// Signatures that went through the signer's retry paths (forced through the fault taps) must interoperate too.
fn interop_retry_paths<V: Fv, R: RefImpl>(seed: u64, heavy: &mut Shards, light: &mut Shards) {
    use falcon_rust::verif::Plan;
    let mut rng = rng_for(seed, &format!("c16-retry-{}", V::N));
    let (sk, pk) = V::keygen(rng.gen());
    let pkb = V::pk_to_bytes(&pk);
    for (name, np, cp) in [("norm-retry", vec![true, false], vec![false]), ("compress-retry", vec![false, false], vec![true, false]),
                           ("both-retries", vec![true, false, true, false], vec![true, true, false])] {
        let msg = format!("retry path {}", name).into_bytes();
        let plan = Plan { record: false, force_norm_reject: np, force_compress_fail: cp, ..Default::default() };
        let (sigb, _, _) = crate::d_sign::sign_with_plan::<V>(&msg, &sk, plan);
        match sigb {
            Some(b) => {
                light.emit(cross(&format!("ref-verifies-our-signature-after-{}", name), V::N, R::verify(&msg, &to_ref_sig(&b), &pkb), ""));
                heavy.emit(honest_event::<V>(&msg, &b, &pkb, &format!("ours-{}", name)));
            }
            None => light.emit(cross(&format!("sign-returns-after-{}", name), V::N, false, "")),
        }
    }
}

/// Keys from seeds whose candidate stream passes through the (F, G) range decision of key generation (corpus.rs): the key that is
/// finally returned must be importable by the reference (it checks |F|, |G| <= 127 on import) and signatures must cross-verify.
fn interop_corpus_keys<V: Fv, R: RefImpl>(count: usize, heavy: &mut Shards, light: &mut Shards) {
    for (i, tag) in crate::corpus::fg_window(V::N).iter().take(count) {
        let (sk, pk) = V::keygen(crate::corpus::corpus_seed(*i));
        let (skb, pkb) = (V::sk_to_bytes(&sk), V::pk_to_bytes(&pk));
        let msg = format!("corpus key {}", i).into_bytes();
        match R::sign(&msg, &skb) {
            Some(rsig) => {
                let ours = from_ref_sig::<V>(&rsig);
                let v = V::sig_from_bytes(&ours).map(|s| V::verify(&msg, &s, &pk)).unwrap_or(false);
                light.emit(cross("we-verify-ref-signature-under-our-corpus-key", V::N, v, tag));
                light.emit(cross("ref-verifies-its-signature-under-our-corpus-pk", V::N, R::verify(&msg, &rsig, &pkb), tag));
                heavy.emit(honest_event::<V>(&msg, &ours, &pkb, "ref-our-corpus-key"));
            }
            None => light.emit(cross("ref-signs-with-our-corpus-key", V::N, false, tag)),
        }
        let sig = V::sig_to_bytes(&V::sign(&msg, &sk));
        light.emit(cross("ref-verifies-our-signature-under-corpus-key", V::N, R::verify(&msg, &to_ref_sig(&sig), &pkb), tag));
    }
}

/// Signatures made here on scripted randomness (first candidate just inside the bound, compressed s2 near or at the budget)
/// must be accepted by the reference too.
fn interop_scripted<V: Fv, R: RefImpl>(seed: u64, tries: usize, heavy: &mut Shards, light: &mut Shards) {
    use falcon_rust::verif::Plan;
    let mut rng = rng_for(seed, &format!("c16-scripted-{}", V::N));
    let (sk, pk) = V::keygen(rng.gen());
    let pkb = V::pk_to_bytes(&pk);
    const RCDT012: [u128; 3] = [3024686241123004913666, 1564742784480091954050, 636254429462080897535];
    let mut t: f64 = 0.65;
    let (mut sent, mut fails, mut tight) = (0usize, 0usize, 0usize);
    for k in 0..tries {
        let mut sc = vec![0u8; 72];
        rng.fill_bytes(&mut sc);
        for _ in 0..2 * V::N {
            let x: f64 = rng.gen();
            let z0 = if x < t / 3.0 { 2 } else if x < t { 1 } else { 0 };
            sc.extend(&RCDT012[z0].to_be_bytes()[7..16]);
            sc.push(rng.gen::<u8>() & 1);
            sc.extend([0u8; 7]);
        }
        let msg = format!("scripted {}", k).into_bytes();
        let plan = Plan { record: true, script: sc, ..Default::default() };
        let (sigb, ev, _) = crate::d_sign::sign_with_plan::<V>(&msg, &sk, plan);
        let attempts = ev.iter().filter(|e| matches!(e, falcon_rust::verif::Event::SignNorm { .. })).count();
        let step = 0.02 / (1.0 + k as f64 / 200.0).sqrt();
        if attempts == 1 { t = (t + step).min(1.0) } else { t = (t - step).max(0.0) }
        if let Some(b) = sigb {
            let slack = b.iter().rev().take_while(|x| **x == 0).count() * 8 + b.iter().rev().find(|x| **x != 0).map(|x| x.trailing_zeros() as usize).unwrap_or(0);
            if attempts == 1 && (slack <= 16 || k % 50 == 0) {
                sent += 1;
                tight += (slack == 0) as usize;
                if !R::verify(&msg, &to_ref_sig(&b), &pkb) {
                    fails += 1;
                    if fails <= 3 {
                        heavy.emit(honest_event::<V>(&msg, &b, &pkb, "scripted-ref-rejected-ours"));
                    }
                }
            }
        }
    }
    // salts scripted to the corpus of extreme hash streams
    let mut cfails = 0;
    for (i, tag) in crate::corpus::H2P_EXTREME.iter() {
        let plan = Plan { record: false, script: crate::corpus::h2p_salt(*i).to_vec(), ..Default::default() };
        let (sigb, _, _) = crate::d_sign::sign_with_plan::<V>(crate::corpus::H2P_MSG, &sk, plan);
        if let Some(b) = sigb {
            if !R::verify(crate::corpus::H2P_MSG, &to_ref_sig(&b), &pkb) {
                cfails += 1;
                heavy.emit(honest_event::<V>(crate::corpus::H2P_MSG, &b, &pkb, tag));
            }
        } else {
            cfails += 1;
        }
    }
    light.emit(cross("ref-verifies-our-signatures-on-extreme-hash-streams", V::N, cfails == 0, &format!("{} of {} rejected", cfails, crate::corpus::H2P_EXTREME.len())));
    light.emit(cross("ref-verifies-our-scripted-signatures", V::N, fails == 0, &format!("{} of {} rejected ({} exact fits)", fails, sent, tight)));
}

/// Keys with a coefficient of F or G exactly at +-127 (what the other side may legitimately produce): decoded here, imported by
/// the reference, signatures cross-verified.
fn interop_edge_keys<V: Fv, R: RefImpl>(seed: u64, heavy: &mut Shards, light: &mut Shards) {
    for (tag, b) in crate::d_keys::edge_valid_b0s::<V>(seed) {
        let sk = V::sk_from_b0(b);
        let pk = V::pk_from_sk(&sk);
        let (skb, pkb) = (V::sk_to_bytes(&sk), V::pk_to_bytes(&pk));
        let msg = tag.clone().into_bytes();
        let ours = match guarded(|| V::sk_from_bytes(&skb)) {
            Outcome::Ret(Ok(k)) => Some(k),
            _ => None,
        };
        light.emit(cross("we-decode-edge-valid-sk", V::N, ours.is_some(), &tag));
        if let Some(k) = &ours {
            let sig = V::sig_to_bytes(&V::sign(&msg, k));
            light.emit(cross("ref-verifies-our-signature-under-edge-key", V::N, R::verify(&msg, &to_ref_sig(&sig), &pkb), &tag));
        }
        match R::sign(&msg, &skb) {
            Some(rsig) => {
                let o = from_ref_sig::<V>(&rsig);
                let v = V::sig_from_bytes(&o).map(|s| V::verify(&msg, &s, &pk)).unwrap_or(false);
                light.emit(cross("we-verify-ref-signature-under-edge-key", V::N, v, &tag));
                heavy.emit(honest_event::<V>(&msg, &o, &pkb, "ref-edge-key"));
            }
            None => light.emit(cross("ref-signs-with-edge-valid-sk", V::N, false, &tag)),
        }
    }
}

pub fn c16(args: &Args) {
    let seed = args.num("--seed", 1);
    let thorough = args.thorough();
    let dir = PathBuf::from(args.get_or("--out", "work/c16"));
    let mut heavy = Shards::create(&dir, "verify", args.num("--shards", 12) as usize);
    let mut light = Shards::create(&dir, "cross", 1);
    interop_variant::<V512, Ref512>(seed, if thorough { 10 } else { 2 }, if thorough { 10 } else { 3 }, &mut heavy, &mut light);
    interop_variant::<V1024, Ref1024>(seed, if thorough { 4 } else { 1 }, if thorough { 8 } else { 3 }, &mut heavy, &mut light);
    interop_edge_keys::<V512, Ref512>(seed, &mut heavy, &mut light);
    interop_edge_keys::<V1024, Ref1024>(seed, &mut heavy, &mut light);
    interop_corpus_keys::<V512, Ref512>(if thorough { 8 } else { 4 }, &mut heavy, &mut light);
    interop_corpus_keys::<V1024, Ref1024>(if thorough { 8 } else { 2 }, &mut heavy, &mut light);
    interop_scripted::<V512, Ref512>(seed, if thorough { 12000 } else { 1500 }, &mut heavy, &mut light);
    interop_scripted::<V1024, Ref1024>(seed, if thorough { 12000 } else { 1500 }, &mut heavy, &mut light);
    interop_retry_paths::<V512, Ref512>(seed, &mut heavy, &mut light);
    interop_retry_paths::<V1024, Ref1024>(seed, &mut heavy, &mut light);
    interop_bulk::<V512, Ref512>(seed, if thorough { 40000 } else { 3000 }, &mut heavy, &mut light);
    interop_bulk::<V1024, Ref1024>(seed, if thorough { 10000 } else { 1000 }, &mut heavy, &mut light);
    println!("heavy {} light {}", heavy.finish(), light.finish());
}
