//! Throw-away style reproduction of the defects listed in DESIGN.md §6, straight against the real code.
//! Prints one line per defect: `Dk <what> -> <observed>`; used once before and once after the `fix:` commits
//! (outputs kept under /verif/findings/). Not on any verdict path.
use falcon_rust::polynomial::Polynomial;
use falcon_rust::{falcon512, verif};
use std::panic::catch_unwind;

fn four_squares(m: i64) -> Option<[i64; 4]> {
    let r = (m as f64).sqrt() as i64 + 1;
    for a in (0..=r).rev() {
        let ma = m - a * a;
        if ma < 0 {
            continue;
        }
        let rb = (ma as f64).sqrt() as i64 + 1;
        for b in (0..=rb.min(a)).rev() {
            let mb = ma - b * b;
            if mb < 0 {
                continue;
            }
            let rc = (mb as f64).sqrt() as i64 + 1;
            for c in (0..=rc.min(b)).rev() {
                let mc = mb - c * c;
                if mc < 0 {
                    continue;
                }
                let d = (mc as f64).sqrt().round() as i64;
                if d * d == mc {
                    return Some([a, b, c, d]);
                }
            }
        }
    }
    None
}

fn vec_with_norm(n: usize, target: i64) -> Vec<i16> {
    let mut e = vec![0i16; n];
    let mut rem = target;
    for i in 0..n - 4 {
        let v = ((rem / ((n - i) as i64)) as f64).sqrt().floor() as i64;
        e[i] = if i % 2 == 0 { v as i16 } else { -(v as i16) };
        rem -= v * v;
    }
    let fs = four_squares(rem).expect("four squares");
    for k in 0..4 {
        e[n - 4 + k] = fs[k] as i16;
    }
    assert_eq!(e.iter().map(|&x| (x as i64) * (x as i64)).sum::<i64>(), target);
    e
}

fn pk_bytes(h: &[i32], logn: u8) -> Vec<u8> {
    let mut bits: Vec<bool> = vec![];
    for &c in h {
        for i in (0..14).rev() {
            bits.push((c >> i) & 1 == 1);
        }
    }
    let mut out = vec![logn];
    for ch in bits.chunks(8) {
        let mut b = 0u8;
        for (i, &bit) in ch.iter().enumerate() {
            if bit {
                b |= 128 >> i;
            }
        }
        out.push(b);
    }
    out
}

fn main() {
    std::panic::set_hook(Box::new(|_| {}));
    // D1
    let n = 512;
    let salt = [7u8; 40];
    let msg = b"boundary".to_vec();
    let c = verif::hash_to_point(&[salt.to_vec(), msg.clone()].concat(), n);
    for delta in [-1i64, 0, 1] {
        let e = vec_with_norm(n, 34034726 + delta - 1);
        let h: Vec<i32> = (0..n)
            .map(|i| ((c[i] as i32 - e[i] as i32) % 12289 + 12289) % 12289)
            .collect();
        let pkb = pk_bytes(&h, 9);
        let mut s2 = vec![0i16; n];
        s2[0] = 1;
        let body = verif::compress(&s2, 625).unwrap();
        let sigb = [vec![0x59u8], salt.to_vec(), body].concat();
        let pk = falcon512::PublicKey::from_bytes(&pkb).unwrap();
        let sig = falcon512::Signature::from_bytes(&sigb).unwrap();
        println!(
            "D1 norm = bound{:+} -> verify = {}",
            delta,
            falcon512::verify(&msg, &sig, &pk)
        );
    }
    // D2
    for (run, low) in [(94usize, 1), (95, 1), (96, 1), (255, 1), (256, 1), (256, 0), (390, 1)] {
        let mut bits: Vec<bool> = vec![];
        for _ in 0..511 {
            bits.extend([false; 8]);
            bits.push(true);
        }
        bits.push(true);
        bits.extend([false; 6]);
        bits.push(low == 1);
        bits.extend(vec![false; run]);
        bits.push(true);
        let mut body = vec![0u8; 625];
        for (i, &b) in bits.iter().enumerate() {
            if b {
                body[i / 8] |= 128 >> (i % 8);
            }
        }
        let r = catch_unwind(|| verif::decompress(&body, 512));
        println!(
            "D2 last coefficient sign=1 low={} run={} -> {}",
            low,
            run,
            match r {
                Ok(Some(v)) => format!("Some(.., {})", v[511]),
                Ok(None) => "None".into(),
                Err(_) => "PANIC".into(),
            }
        );
    }
    // D3
    for v in [-12289i16, -24578, i16::MIN] {
        let r = catch_unwind(|| verif::felt_new(v));
        println!("D3 Felt::new({}) -> {:?}", v, r.map_err(|_| "PANIC"));
    }
    // D4
    {
        let x = 0.3f64;
        let ccs = 0.75f64;
        let s = (x / std::f64::consts::LN_2).floor();
        let r = x - std::f64::consts::LN_2 * s;
        let z = (((verif::approx_exp(r, ccs) as u128) << 1) - 1) >> (s as usize).min(63);
        let z = z as u64;
        let zb = z.to_be_bytes();
        let bytes: [u8; 7] = zb[0..7].try_into().unwrap();
        let r = catch_unwind(|| verif::ber_exp(x, ccs, bytes));
        println!("D4 ber_exp with 7 tying bytes -> {:?}", r.map_err(|_| "PANIC"));
    }
    // D5
    {
        let mut h = vec![1i32; 512];
        h[3] = 12289 + 5;
        let pkb = pk_bytes(&h, 9);
        match falcon512::PublicKey::from_bytes(&pkb) {
            Ok(pk) => println!(
                "D5 pk field 12294 -> Ok, re-encoding equal = {}",
                pk.to_bytes() == pkb
            ),
            Err(e) => println!("D5 pk field 12294 -> Err({:?})", e),
        }
    }
    // D6
    {
        let mut seed = [0u8; 32];
        seed[1] = 235;
        seed[31] = 6;
        let (sk, _pk) = falcon512::keygen(seed);
        let b = sk.to_bytes();
        let b0 = verif::sk_b0(&sk);
        let maxf = b0[3].iter().map(|x| x.abs()).max().unwrap();
        let maxg = b0[2].iter().map(|x| x.abs()).max().unwrap();
        let sk2 = falcon512::SecretKey::from_bytes(&b);
        println!(
            "D6 seed [0,235,0..,6]: max|F| = {}, max|G| = {}, from_bytes(to_bytes(sk)) == sk -> {:?}",
            maxf,
            maxg,
            sk2.map(|k| k == sk).map_err(|e| format!("{:?}", e))
        );
    }
    // D7
    {
        let f = Polynomial::new(vec![3i32, -2, 1, 4]);
        let g = Polynomial::new(vec![1i32, 5, -3, 2]);
        let r = catch_unwind(|| {
            let mut cf = Polynomial::new(vec![0i32; 4]);
            let mut cg = Polynomial::new(vec![0i32; 4]);
            falcon_rust::math::babai_reduce_i32(&f, &g, &mut cf, &mut cg).is_ok()
        });
        println!("D7 babai_reduce_i32 on (F,G) = 0 -> {:?}", r.map_err(|_| "PANIC"));
    }
}
