//! `drive <what> --tier quick|thorough --seed N --out DIR [...]`: exercise the real library and record traces.
use harness::common::{install_panic_hook, Args};
fn main() {
    install_panic_hook();
    let args = Args::from_env();
    let what = args.v.get(1).cloned().unwrap_or_default();
    match what.as_str() {
        "c02" => harness::d_verify::c02(&args),
        "c07" => harness::d_codec::c07(&args),
        "c01" => harness::d_sign::c01(&args),
        "fgseeds" => harness::d_keys::fgseeds(&args),
        "c01-codec" => harness::d_codec::c01_codec(&args),
        "h2psearch" => harness::d_hash::h2psearch(&args),
        "polyhelpers" => harness::d_poly::polyhelpers(&args),
        "replay-events" => harness::d_replay::replay_events(&args),
        "solve" => harness::d_solve::solve(&args),
        "signsampler" => harness::d_sign::signsampler(&args),
        "c10" => harness::d_moments::c10(&args),
        "c13" => harness::d_fft::c13(&args),
        "c16" => harness::d_interop::c16(&args),
        "c17" => harness::d_babai::c17(&args),
        "c09" => harness::d_sampler::c09(&args),
        "c09-hist" => harness::d_sampler::c09_hist(&args),
        "genpoly" => harness::d_sampler::c09_genpoly(&args),
        "keys" => harness::d_keys::keys(&args),
        "c11" => harness::d_field::c11(&args),
        "c12" => harness::d_field::c12(&args),
        "u32field" => harness::d_field::u32field(&args),
        "c14" => harness::d_hash::c14(&args),
        "c08" => harness::d_system::c08(&args),
        "c15" => harness::d_system::c15(&args),
        "decoders" => harness::d_decode::decoders(&args),
        "replay-codec" => harness::d_codec::replay_codec(&args),
        _ => {
            eprintln!("unknown driver {}", what);
            std::process::exit(2);
        }
    }
}
