fn main() { println!("{:?}", falcon_rust::verif::felt_new(-12289)); }
