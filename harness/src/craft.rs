//! Construction of inputs that sit exactly where a defect would hide.  Selection only: every
//! constructed input is judged by TLC from its bytes.
use crate::common::*;

pub const Q: i32 = 12289;

pub fn four_squares(m: i64) -> Option<[i64; 4]> {
    four_squares_capped(m, i64::MAX)
}

/// m = a^2 + b^2 + c^2 + d^2 with a >= b >= c >= d >= 0 and a <= cap.
pub fn four_squares_capped(m: i64, cap: i64) -> Option<[i64; 4]> {
    let r = ((m as f64).sqrt() as i64 + 1).min(cap);
    for a in (0..=r).rev() {
        let ma = m - a * a;
        if ma < 0 {
            continue;
        }
        let rb = (ma as f64).sqrt() as i64 + 1;
        for b in (0..=rb.min(a)).rev() {
            let mb = ma - b * b;
            if mb < 0 {
                continue;
            }
            let rc = (mb as f64).sqrt() as i64 + 1;
            for c in (0..=rc.min(b)).rev() {
                let mc = mb - c * c;
                if mc < 0 {
                    continue;
                }
                let d = (mc as f64).sqrt().round() as i64;
                if d * d == mc {
                    return Some([a, b, c, d]);
                }
            }
        }
    }
    None
}

/// An integer vector of length n with squared norm exactly `target`, entries of mixed sign,
/// |entry| <= 6144 (inside the centred range).  `twist` varies the shape.
pub fn vec_with_norm(n: usize, target: i64, twist: u64) -> Vec<i16> {
    let mut e = vec![0i16; n];
    let mut rem = target;
    for i in 0..n - 4 {
        let avg = rem / ((n - i) as i64);
        let mut v = (avg as f64).sqrt().floor() as i64;
        // vary: every (twist+3)-th entry a bit smaller
        if (i as u64 + twist) % (twist % 5 + 3) == 0 && v > 2 {
            v -= ((i as u64 + twist) % 3) as i64;
        }
        v = v.min(6144);
        e[i] = if (i as u64 + twist) % 2 == 0 { v as i16 } else { -(v as i16) };
        rem -= v * v;
    }
    let fs = four_squares_capped(rem, 6144).expect("four squares");
    for k in 0..4 {
        assert!(fs[k] <= 6144, "tail too large");
        e[n - 4 + k] = if k % 2 == 0 { fs[k] as i16 } else { -(fs[k] as i16) };
    }
    assert_eq!(
        e.iter().map(|&x| (x as i64) * (x as i64)).sum::<i64>(),
        target
    );
    e
}

/// Public-key bytes for coefficients h (14-bit fields; values are written as given, so
/// out-of-range fields can be produced on purpose).
pub fn pk_bytes(h: &[i32], logn: u8) -> Vec<u8> {
    let mut bits: Vec<bool> = vec![];
    for &c in h {
        push_field(&mut bits, c as u32, 14);
    }
    let mut out = vec![logn];
    out.extend(bits_to_bytes(&bits, bits.len() / 8));
    out
}

/// Secret-key bytes from (f, g, F) with explicit field widths; values are truncated to the width.
pub fn sk_bytes(f: &[i16], g: &[i16], cf: &[i16], logn: u8, wfg: usize, wf: usize) -> Vec<u8> {
    let mut bits: Vec<bool> = vec![];
    for &c in f {
        push_field(&mut bits, (c as i32 as u32) & ((1 << wfg) - 1), wfg);
    }
    for &c in g {
        push_field(&mut bits, (c as i32 as u32) & ((1 << wfg) - 1), wfg);
    }
    for &c in cf {
        push_field(&mut bits, (c as i32 as u32) & ((1 << wf) - 1), wf);
    }
    let mut out = vec![0x50 | logn];
    out.extend(bits_to_bytes(&bits, bits.len() / 8));
    out
}

/// Negacyclic multiplication by the monomial sign * x^k of a vector over Z.
pub fn mul_monomial(a: &[i32], k: usize, sign: i32) -> Vec<i32> {
    let n = a.len();
    let mut out = vec![0i32; n];
    for i in 0..n {
        let j = i + k;
        if j < n {
            out[j] = sign * a[i];
        } else {
            out[j - n] = -sign * a[i];
        }
    }
    out
}

/// For s2 = sign * x^k and a wanted s1 = e, the public key h with c - s2*h = e (mod q):
/// h = (c - e) * (sign * x^k)^-1 = (c - e) * (-sign) * x^(n-k)   [since x^n = -1].
pub fn pk_for_s1(c: &[i16], e: &[i16], k: usize, sign: i32) -> Vec<i32> {
    let n = c.len();
    let d: Vec<i32> = (0..n).map(|i| c[i] as i32 - e[i] as i32).collect();
    let h = if k == 0 {
        d.iter().map(|&x| sign * x).collect::<Vec<_>>()
    } else {
        mul_monomial(&d, n - k, -sign)
    };
    h.iter().map(|&x| ((x % Q) + Q) % Q).collect()
}

fn pow_mod(mut b: i64, mut e: i64, m: i64) -> i64 {
    let mut r = 1i64;
    b %= m;
    while e > 0 {
        if e & 1 == 1 {
            r = r * b % m;
        }
        b = b * b % m;
        e >>= 1;
    }
    r
}

/// Evaluations a(psi^(2i+1)), i < n, psi a primitive 2n-th root of unity mod q (quadratic time; harness-side, independent of
/// the library's transforms).
fn eval_odd_powers(a: &[i32], inverse: bool) -> Vec<i64> {
    let _ = inverse;
    let n = a.len();
    let q = Q as i64;
    let psi = pow_mod(11, (q - 1) / (2 * n as i64), q);
    assert_eq!(pow_mod(psi, n as i64, q), q - 1, "psi is not a primitive 2n-th root");
    let pw: Vec<i64> = (0..2 * n).scan(1i64, |s, _| { let r = *s; *s = *s * psi % q; Some(r) }).collect();
    let mut out = vec![0i64; n];
    for i in 0..n {
        let mut acc = 0i64;
        for j in 0..n {
            let e = ((2 * i + 1) * j) % (2 * n);
            let e = if inverse { (2 * n - e) % (2 * n) } else { e };
            acc += (a[j] as i64).rem_euclid(q) * pw[e] % q;
        }
        out[i] = acc % q;
    }
    out
}

/// num / den in Z_q[x]/(x^n+1), or None when den is not invertible.
pub fn negacyclic_div(num: &[i32], den: &[i32]) -> Option<Vec<i32>> {
    let n = num.len();
    let q = Q as i64;
    let a = eval_odd_powers(num, false);
    let b = eval_odd_powers(den, false);
    if b.iter().any(|&x| x == 0) {
        return None;
    }
    let quot: Vec<i32> = (0..n).map(|i| (a[i] * pow_mod(b[i], q - 2, q) % q) as i32).collect();
    // inverse transform: c_j = n^-1 * sum_i C_i psi^(-(2i+1) j)  -- the transposed evaluation
    let psi = pow_mod(11, (q - 1) / (2 * n as i64), q);
    let pw: Vec<i64> = (0..2 * n).scan(1i64, |s, _| { let r = *s; *s = *s * psi % q; Some(r) }).collect();
    let ninv = pow_mod(n as i64, q - 2, q);
    let mut out = vec![0i32; n];
    for j in 0..n {
        let mut acc = 0i64;
        for i in 0..n {
            let e = ((2 * i + 1) * j) % (2 * n);
            acc += quot[i] as i64 * pw[(2 * n - e) % (2 * n)] % q;
        }
        out[j] = (acc % q * ninv % q) as i32;
    }
    Some(out)
}

/// The public key h with c - s2*h = e (mod q) for an arbitrary invertible s2, or None.
pub fn pk_for_s1_general(c: &[i16], e: &[i16], s2: &[i16]) -> Option<Vec<i32>> {
    let d: Vec<i32> = c.iter().zip(e.iter()).map(|(&c, &e)| c as i32 - e as i32).collect();
    let s: Vec<i32> = s2.iter().map(|&x| x as i32).collect();
    negacyclic_div(&d, &s)
}
