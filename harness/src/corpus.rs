//! Seeds found by an offline search (`drive fgseeds`) whose candidate stream in `ntru_gen` passes through the (F, G) range
//! decision (tap verdict 5: a solved and reduced (F, G) with a coefficient outside [-127, 127] must be discarded and key
//! generation must go on to the next candidate).  Natural rate: about 1.1 per 1000 seeds, so random seeds essentially never
//! exercise that decision.  Seed i is `seed[..8] = i (little endian), seed[31] = 0x46`, all other bytes zero.
//! The tuples give the extremes (min F, max F, min G, max G) of the DISCARDED solution on the unchanged code.
//! If a (behaviour-preserving) change of the seed expansion makes these seeds ordinary, the checks lose power, not soundness.
pub fn corpus_seed(i: u64) -> [u8; 32] {
    let mut seed = [0u8; 32];
    seed[..8].copy_from_slice(&i.to_le_bytes());
    seed[31] = 0x46;
    seed
}
/// (seed index, what the discarded solution looks like)
pub const FG_WINDOW_512: &[(u64, &str)] = &[
    (932, "fg-window G=+131 only"),
    (1242, "fg-window G=-130 only"),
    (23340, "fg-window F=-128 exactly"),
    (12026, "fg-window F=+128 exactly"),
    (19344, "fg-window G=+128 exactly"),
    (6038, "fg-window F=-129"),
    (1500, "fg-window F=-150"),
    (22896, "fg-window G=-130 only"),
];
pub const FG_WINDOW_1024: &[(u64, &str)] = &[
    (714, "fg-window G=+129 only"),
    (1692, "fg-window G=-128 exactly, only"),
    (1647, "fg-window F=+128 exactly"),
    (847, "fg-window F=-134"),
    (377, "fg-window F=+129"),
    // verdict 4: a coefficient of f or g outside [-15, 15] (the 5-bit field of the secret-key format)
    (916, "fg-window g=-16"),
    (1717, "fg-window f=-16"),
    (1751, "fg-window f=+16"),
];
pub fn fg_window(n: usize) -> &'static [(u64, &'static str)] {
    if n == 512 { FG_WINDOW_512 } else { FG_WINDOW_1024 }
}

/// Strings whose SHAKE-256 stream is extreme for Algorithm 3 (HashToPoint), found by an offline search over 4 * 10^8 candidates
/// (`drive h2psearch`): string i is `format!("{:040}corpus message", i)`, i.e. a 40-byte salt of ASCII digits followed by the message
/// "corpus message".  A random string has 36 +- 6 rejected chunks among its first 576 and runs of at most 3-4 rejected chunks.
pub const H2P_EXTREME: &[(u64, &str)] = &[
    (71425893, "h2p-74-rejected-of-first-576"),
    (385518862, "h2p-run-of-10-rejected"),
    (8523530, "h2p-run-of-8-rejected-in-512-stream"),
    (154838726, "h2p-74-rejected-of-first-576"),
    (29475374, "h2p-run-of-9-rejected"),
    (4832260, "h2p-73-rejected-of-first-576"),
    (149919089, "h2p-73-rejected-of-first-576"),
    (11685642, "h2p-run-of-8-rejected-in-512-stream"),
    (241657044, "h2p-73-rejected-of-first-576"),
    (342138367, "h2p-73-rejected-of-first-576"),
    (80586863, "h2p-run-of-9-rejected"),
    (33378500, "h2p-run-of-8-rejected-in-512-stream"),
];
pub const H2P_MSG: &[u8] = b"corpus message";
pub fn h2p_salt(i: u64) -> [u8; 40] {
    let s = format!("{:040}", i).into_bytes();
    let mut a = [0u8; 40];
    a.copy_from_slice(&s);
    a
}
pub fn h2p_string(i: u64) -> Vec<u8> {
    let mut v = h2p_salt(i).to_vec();
    v.extend_from_slice(H2P_MSG);
    v
}

/// Seeds (same construction as above) whose key generation goes through unusually many candidates (the typical number is about
/// a dozen): a bound on the number of attempts, or any state that grows per attempt, shows only on such seeds.
pub const LONG_STREAM_512: &[(u64, &str)] = &[(3091, "long-stream 117 candidates"), (5387, "long-stream 105 candidates"), (828, "long-stream 104 candidates")];
pub const LONG_STREAM_1024: &[(u64, &str)] = &[(1331, "long-stream 186 candidates"), (503, "long-stream 177 candidates"), (1087, "long-stream 147 candidates")];
pub fn long_stream(n: usize) -> &'static [(u64, &'static str)] {
    if n == 512 { LONG_STREAM_512 } else { LONG_STREAM_1024 }
}
