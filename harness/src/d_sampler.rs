//! C09: the sampler and its building blocks through the hook wrappers, with a caller-supplied byte source.
use crate::common::*;
use falcon_rust::verif;
use rand::{Rng, RngCore};
use serde_json::{json, Value};
use std::path::PathBuf;

/// Serves the given bytes one per generator word (as the crate draws them) and counts consumption.
/// When the script is exhausted the harness aborts the call by unwinding with the payload
/// "SCRIPT-EXHAUSTED" (recorded as `exhausted`, not as a panic of the code under test).
pub struct ScriptRng {
    pub bytes: Vec<u8>,
    pub pos: usize,
    pub exhausted: bool,
}
impl ScriptRng {
    pub fn new(bytes: Vec<u8>) -> Self {
        ScriptRng { bytes, pos: 0, exhausted: false }
    }
    fn next(&mut self) -> u8 {
        if self.pos < self.bytes.len() {
            self.pos += 1;
            self.bytes[self.pos - 1]
        } else {
            self.exhausted = true;
            panic!("SCRIPT-EXHAUSTED");
        }
    }
}
impl RngCore for ScriptRng {
    fn next_u32(&mut self) -> u32 {
        self.next() as u32
    }
    fn next_u64(&mut self) -> u64 {
        self.next() as u64
    }
    fn fill_bytes(&mut self, dest: &mut [u8]) {
        for d in dest.iter_mut() {
            *d = self.next();
        }
    }
    fn try_fill_bytes(&mut self, dest: &mut [u8]) -> Result<(), rand::Error> {
        self.fill_bytes(dest);
        Ok(())
    }
}

const RCDT: [u128; 18] = [
    3024686241123004913666, 1564742784480091954050, 636254429462080897535, 199560484645026482916, 47667343854657281903,
    8595902006365044063, 1163297957344668388, 117656387352093658, 8867391802663976, 496969357462633, 20680885154299,
    638331848991, 14602316184, 247426747, 3104126, 28824, 198, 1,
];

fn u72_bytes(u: u128) -> [u8; 9] {
    let b = u.to_be_bytes();
    b[7..16].try_into().unwrap()
}

fn base_event(bytes: [u8; 9], tag: &str) -> Value {
    let (res, panic) = match guarded(|| verif::base_sampler(bytes)) {
        Outcome::Ret(r) => (r as i64, false),
        Outcome::Panic(_) => (-1, true),
    };
    json!({"ev":"base","bytes":bytes_json(&bytes),"res":res,"panic":panic,"tag":tag})
}
fn approx_event(x: f64, ccs: f64, tag: &str) -> Value {
    let (res, panic) = match guarded(|| verif::approx_exp(x, ccs)) {
        Outcome::Ret(r) => (r, false),
        Outcome::Panic(_) => (0, true),
    };
    json!({"ev":"approxexp","x":f64_words(x),"ccs":f64_words(ccs),"res":u64_words(res),"panic":panic,"tag":tag})
}
fn ber_event(x: f64, ccs: f64, bytes: [u8; 7], tag: &str) -> Value {
    let (res, panic) = match guarded(|| verif::ber_exp(x, ccs, bytes)) {
        Outcome::Ret(r) => (r, false),
        Outcome::Panic(_) => (false, true),
    };
    json!({"ev":"berexp","x":f64_words(x),"ccs":f64_words(ccs),"bytes":bytes_json(&bytes),"res":res,"panic":panic,"tag":tag})
}
/// Run sampler_z on a scripted stream; record the bytes it consumed.
pub fn sampler_event(mu: f64, sigma: f64, sigmin: f64, stream: Vec<u8>, tag: &str) -> Value {
    let mut rng = ScriptRng::new(stream);
    let r = guarded(|| verif::sampler_z(mu, sigma, sigmin, &mut rng));
    let used = rng.pos.min(rng.bytes.len());
    let (res, panic, detail) = match r {
        Outcome::Ret(z) => (z as i64, false, String::new()),
        Outcome::Panic(m) if m.starts_with("SCRIPT-EXHAUSTED") => (0, false, m),
        Outcome::Panic(m) => (0, true, m),
    };
    json!({"ev":"samplerz","mu":f64_words(mu),"sigma":f64_words(sigma),"sigmin":f64_words(sigmin),
           "bytes":bytes_json(&rng.bytes[..used]),"consumed":rng.pos,"exhausted":rng.exhausted,
           "res":res,"panic":panic,"detail":detail,"tag":tag})
}

/// z = ((2*approx_exp(r, ccs) - 1) >> min(s,63)) recomputed through the hooks, to build tie patterns (selection only)
fn z_of(x: f64, ccs: f64) -> u64 {
    let s = (x / std::f64::consts::LN_2).floor();
    let r = x - std::f64::consts::LN_2 * s;
    let y = verif::approx_exp(r, ccs) as u128;
    (((y << 1) - 1) >> (s as usize).min(63)) as u64
}

pub const SIGMIN512: f64 = 1.2778336969128337;
pub const SIGMIN1024: f64 = 1.298280334344292;

pub fn c09(args: &Args) {
    let seed = args.num("--seed", 1);
    let thorough = args.thorough();
    let dir = PathBuf::from(args.get_or("--out", "work/c09"));
    let mut out = Shards::create(&dir, "sampler", args.num("--shards", 12) as usize);
    let mut rng = rng_for(seed, "c09");
    // --- BaseSampler: a step function is determined by its values around its 18 thresholds
    for (i, &t) in RCDT.iter().enumerate() {
        for d in [-1i128, 0, 1] {
            let u = (t as i128 + d) as u128;
            out.emit(base_event(u72_bytes(u), &format!("rcdt-{}", i)));
        }
    }
    out.emit(base_event([0u8; 9], "zero"));
    out.emit(base_event([255u8; 9], "max"));
    for _ in 0..(if thorough { 5000 } else { 300 }) {
        // random, with a bias to small values (the tail thresholds)
        let mut b = [0u8; 9];
        rng.fill_bytes(&mut b);
        let zeros = rng.gen_range(0..9);
        for k in 0..zeros {
            b[k] = 0;
        }
        out.emit(base_event(b, "random"));
    }
    // --- ApproxExp on [0, ln 2] x (0, 1]
    let ln2 = std::f64::consts::LN_2;
    for &(x, ccs) in &[(0.0, 1.0), (ln2, 1.0), (0.0, 0.5), (ln2, 0.7), (1e-9, 0.999), (0.5, 1.0), (f64::MIN_POSITIVE, 1.0), (ln2 - 1e-16, 0.7019)] {
        out.emit(approx_event(x, ccs, "corner"));
    }
    for _ in 0..(if thorough { 3000 } else { 150 }) {
        let x = rng.gen::<f64>() * ln2;
        let ccs = 0.6 + 0.4 * rng.gen::<f64>();
        out.emit(approx_event(x, ccs, "random"));
    }
    // --- BerExp: shifts s in {0,1,..,64,200}, ties on the first k bytes, extreme bytes
    let ccs0 = SIGMIN512 / 1.7;
    for &s in &[0usize, 1, 2, 7, 8, 9, 31, 32, 55, 56, 57, 62, 63, 64, 65, 200] {
        let x = ln2 * (s as f64) + 0.3;
        let z = z_of(x, ccs0).to_be_bytes();
        for k in 0..=7usize {
            // tie on the first k bytes, then below / above
            for delta in [-1i32, 1] {
                let mut b = [0u8; 7];
                b[..k.min(7)].copy_from_slice(&z[..k.min(7)]);
                if k < 7 {
                    let v = z[k] as i32 + delta;
                    if !(0..=255).contains(&v) {
                        continue;
                    }
                    b[k] = v as u8;
                    for j in k + 1..7 {
                        b[j] = if delta < 0 { 255 } else { 0 };
                    }
                }
                out.emit(ber_event(x, ccs0, b, &format!("tie-{}", k)));
            }
        }
        out.emit(ber_event(x, ccs0, [0u8; 7], "zeros"));
        out.emit(ber_event(x, ccs0, [255u8; 7], "ones"));
    }
    for _ in 0..(if thorough { 3000 } else { 200 }) {
        let x = rng.gen::<f64>() * 6.0;
        let ccs = 0.7 + 0.3 * rng.gen::<f64>();
        let mut b = [0u8; 7];
        rng.fill_bytes(&mut b);
        if rng.gen::<bool>() {
            // near the threshold: copy the leading bytes of z
            let z = z_of(x, ccs).to_be_bytes();
            let k = rng.gen_range(0..7);
            b[..k].copy_from_slice(&z[..k]);
        }
        out.emit(ber_event(x, ccs, b, "random"));
    }
    // --- sampler_z: grid of centres and widths, random and structured streams
    // (the result type is i16: centres whose floor plus a sample in [-18, 19] leaves the i16 range are outside what any
    // implementation with this signature can return; the grid goes up to that edge)
    let mus: Vec<f64> = vec![0.0, 0.5, -0.5, 0.999999, -0.000001, 1.0, -1.0, 7.25, -7.75, 100.3, -91.90471153063714, 16383.5, -16383.5, 0.1, 3.0e-300,
                             8192.75, -12000.001, 20000.25, 32748.5, -32749.5, -1.0000000000000002, -0.9999999999999999, 4.999999999999999, -1e-17];
    let sigmas: Vec<(f64, f64)> = vec![(SIGMIN512, SIGMIN512), (1.5, SIGMIN512), (1.7037990414754918, 1.277833697), (1.8205, SIGMIN512),
                                      (SIGMIN1024, SIGMIN1024), (1.75, SIGMIN1024), (1.8205, SIGMIN1024), (1.43300980528773, 1.43200980528773)];
    let reps = if thorough { 40 } else { 3 };
    for &mu in &mus {
        for &(sg, smin) in &sigmas {
            for _ in 0..reps {
                let mut s = vec![0u8; 17 * 40];
                rng.fill_bytes(&mut s);
                out.emit(sampler_event(mu, sg, smin, s, "random-stream"));
            }
        }
    }
    // the same grid once more in a shuffled order, and runs where only the centre / only the width changes between
    // consecutive calls (state leaking between calls, e.g. a cached 1/sigma or floor(mu), shows up here)
    {
        let mut grid: Vec<(f64, f64, f64)> = vec![];
        for &mu in &mus {
            for &(sg, smin) in &sigmas {
                grid.push((mu, sg, smin));
            }
        }
        for i in (1..grid.len()).rev() {
            let j = rng.gen_range(0..=i);
            grid.swap(i, j);
        }
        for &(mu, sg, smin) in grid.iter().take(if thorough { grid.len() } else { 60 }) {
            let mut s = vec![0u8; 17 * 40];
            rng.fill_bytes(&mut s);
            out.emit(sampler_event(mu, sg, smin, s, "shuffled-grid"));
        }
        let (sg, smin) = sigmas[1];
        for &mu in &mus {
            let mut s = vec![0u8; 17 * 40];
            rng.fill_bytes(&mut s);
            out.emit(sampler_event(mu, sg, smin, s, "only-mu-changes"));
        }
        for &(sg, smin) in &sigmas {
            let mut s = vec![0u8; 17 * 40];
            rng.fill_bytes(&mut s);
            out.emit(sampler_event(-8.322564895434937, sg, smin, s, "only-sigma-changes"));
        }
    }
    // structured streams: all zero, all 0xFF (never accepts: consumes the whole prefix), periodic, z0 forced to each value
    for &(sg, smin) in &sigmas {
        out.emit(sampler_event(0.3, sg, smin, vec![0u8; 17 * 8], "stream-zero"));
        out.emit(sampler_event(-0.3, sg, smin, vec![255u8; 17 * 8], "stream-ff"));
        out.emit(sampler_event(2.5, sg, smin, (0..17 * 12).map(|i| (i * 37 % 256) as u8).collect(), "stream-periodic"));
        for (i, &t) in RCDT.iter().enumerate() {
            // first iteration draws u = RCDT[i] - 1 (z0 = i + 1), sign bit both ways, then zeros
            for bit in [0u8, 1] {
                let mut s = u72_bytes(t - if t > 0 { 1 } else { 0 }).to_vec();
                s.push(bit);
                s.extend([0u8; 7]);
                s.extend(vec![0u8; 17 * 6]);
                out.emit(sampler_event(0.25, sg, smin, s, &format!("forced-z0-{}", i + 1)));
            }
        }
    }
    // long runs of rejections: a stream that never accepts must be consumed to its end, however long (an iteration cap, a
    // watchdog, a counter of narrow type)
    for &(sg, smin) in &[sigmas[1], sigmas[6]] {
        for &iters in &(if thorough { vec![16usize, 64, 256, 1024, 4117] } else { vec![64usize, 300, 1024] }) {
            out.emit(sampler_event(0.4, sg, smin, vec![255u8; 17 * iters], "stream-ff-long"));
        }
    }
    // near-threshold Bernoulli bytes inside sampler_z: first iteration with z0 and b forced, the seven bytes tied with the
    // threshold on their first k bytes and one off at byte k (both ways); then zeros.  A small distortion of x or ccs inside the
    // sampler flips these verdicts although it is far below the resolution of a histogram.
    for &(sg, smin) in &sigmas[..6] {
        for &mu in &[0.0f64, 0.37, -0.62, 1234.9] {
            for z0 in 0..(if thorough { 6usize } else { 4 }) {
                for bit in [0u8, 1] {
                    let isigma = 1.0 / sg;
                    let dss = 0.5 * isigma * isigma;
                    let r = mu - mu.floor();
                    let b = bit as f64;
                    let z = b + (2.0 * b - 1.0) * z0 as f64;
                    let x = (z - r) * (z - r) * dss - (z0 * z0) as f64 / (2.0 * 1.8205 * 1.8205);
                    if x < 0.0 {
                        continue;
                    }
                    let zb = z_of(x, smin * isigma).to_be_bytes();
                    for &k in &[1usize, 3, 6] {
                        for delta in [-1i32, 1] {
                            if !thorough && (k + z0 + bit as usize) % 2 == (delta == 1) as usize {
                                continue;
                            }
                            let v = zb[k] as i32 + delta;
                            if !(0..=255).contains(&v) {
                                continue;
                            }
                            let u = if z0 == 0 { (1u128 << 72) - 1 } else { RCDT[z0 - 1] - 1 };
                            let mut s = u72_bytes(u).to_vec();
                            s.push(bit);
                            let mut bb = [0u8; 7];
                            bb[..k].copy_from_slice(&zb[..k]);
                            bb[k] = v as u8;
                            for j in k + 1..7 {
                                bb[j] = if delta < 0 { 255 } else { 0 };
                            }
                            s.extend(bb);
                            s.extend(vec![0u8; 17 * 6]);
                            out.emit(sampler_event(mu, sg, smin, s, "near-threshold"));
                        }
                    }
                }
            }
        }
    }
    // ties on all seven bytes of the Bernoulli comparison (the defect D4 family): build from z of the first iteration
    for &(sg, smin) in &sigmas[..4] {
        for &mu in &[0.0f64, 0.4, -0.6] {
            // iteration with z0 = 0, b = 0: z = 0, x = r^2 * dss
            let isigma = 1.0 / sg;
            let dss = 0.5 * isigma * isigma;
            let r = mu - mu.floor();
            let x = (0.0 - r) * (0.0 - r) * dss;
            let ccs = smin * isigma;
            let z = z_of(x, ccs).to_be_bytes();
            let mut s = vec![255u8; 9]; // u = 2^72-1: z0 = 0
            s.push(0);
            s.extend(&z[..7]); // tie on all 7 bytes
            s.extend(vec![0u8; 17 * 6]);
            out.emit(sampler_event(mu, sg, smin, s, "tie-all-seven"));
        }
    }
    println!("events {}", out.finish());
}

/// gen_poly(n) on a scripted stream: the key-generation polynomials are sums of 4096/n sampler outputs
/// (sigma* = 1.43300980528773, sigma_min = sigma* - 0.001, centre 0).  Recorded with the bytes consumed.
pub fn genpoly_event(n: usize, stream: Vec<u8>, tag: &str) -> Value {
    let mut rng = ScriptRng::new(stream);
    let r = guarded(|| verif::gen_poly(n, &mut rng));
    let used = rng.pos.min(rng.bytes.len());
    let (out, panic, exhausted) = match r {
        Outcome::Ret(v) => (v, false, false),
        Outcome::Panic(m) if m.starts_with("SCRIPT-EXHAUSTED") => (vec![], false, true),
        Outcome::Panic(_) => (vec![], true, false),
    };
    json!({"ev":"genpoly","n":n,"bytes":bytes_json(&rng.bytes[..used]),"consumed":rng.pos,"exhausted":exhausted,
           "out":i16s_json(&out),"panic":panic,"tag":tag})
}

pub fn c09_genpoly(args: &Args) {
    let seed = args.num("--seed", 1);
    let dir = PathBuf::from(args.get_or("--out", "work/c09"));
    let mut out = Shards::create(&dir, "genpoly", args.num("--shards", 4) as usize);
    let mut rng = rng_for(seed, "genpoly");
    let ns: Vec<usize> = if args.thorough() { vec![2, 8, 64, 256, 512, 1024] } else { vec![4, 512, 1024] };
    for n in ns {
        // enough bytes for 4096 samples at ~1.6 iterations each, with margin
        let mut s = vec![0u8; 4096 * 17 * 3];
        rng.fill_bytes(&mut s);
        out.emit(genpoly_event(n, s, "random-stream"));
    }
    println!("events {}", out.finish());
}

/// Histogram of the sampler's output over uniform bytes, for the distribution test.
pub fn c09_hist(args: &Args) {
    let seed = args.num("--seed", 1);
    let n = args.num("--samples", 200000);
    let dir = PathBuf::from(args.get_or("--out", "work/c09"));
    let mut out = Shards::create(&dir, "hist", 1);
    let pairs: Vec<(f64, f64, f64, &str)> = vec![
        (0.0, SIGMIN512, SIGMIN512, "mu0-sigmin512"),
        (0.5, 1.5, SIGMIN512, "mu05-s15"),
        (-0.3, 1.8205, SIGMIN512, "mum03-smax"),
        (0.25, SIGMIN1024, SIGMIN1024, "mu025-sigmin1024"),
        (-7.75, 1.7, SIGMIN1024, "mum775-s17"),
        (100.3, 1.43300980528773, 1.43200980528773, "mu1003-sstar"),
    ];
    for (pi, (mu, sg, smin, tag)) in pairs.iter().enumerate() {
        use rand::SeedableRng;
        let mut rng = rand_chacha::ChaCha20Rng::seed_from_u64(seed.wrapping_mul(1000003).wrapping_add(pi as u64));
        let lo = mu.floor() as i64 - 20;
        let mut hist = vec![0u64; 42];
        let mut outside = 0u64;
        let mut sum = 0i64;
        for _ in 0..n {
            let z = verif::sampler_z(*mu, *sg, *smin, &mut rng) as i64;
            sum += z;
            let k = z - lo;
            if (0..42).contains(&k) {
                hist[k as usize] += 1;
            } else {
                outside += 1;
            }
        }
        out.emit(json!({"ev":"hist","pair":pi,"tag":tag,"mu":f64_words(*mu),"sigma":f64_words(*sg),"lo":lo,"hist":hist,"outside":outside,"n":n,"sum":sum % 1000000000}));
    }
    println!("events {}", out.finish());
}
