//! Uniform access to the two parameter sets through the public API (+ hook accessors).
use falcon_rust::{falcon1024, falcon512, verif};

#[cfg(feature = "sync-keys")]
pub trait MaybeSync: Sync {}
#[cfg(feature = "sync-keys")]
impl<T: Sync> MaybeSync for T {}
#[cfg(not(feature = "sync-keys"))]
pub trait MaybeSync {}
#[cfg(not(feature = "sync-keys"))]
impl<T> MaybeSync for T {}

/// One object shared by several threads (Arc) -- or, without the `sync-keys` feature, one clone per thread.
#[cfg(feature = "sync-keys")]
pub type Shared<T> = std::sync::Arc<T>;
#[cfg(feature = "sync-keys")]
pub fn share<T>(x: T) -> Shared<T> {
    std::sync::Arc::new(x)
}
#[cfg(not(feature = "sync-keys"))]
pub struct Shared<T>(T);
#[cfg(not(feature = "sync-keys"))]
impl<T: Clone> Clone for Shared<T> {
    fn clone(&self) -> Self {
        Shared(self.0.clone())
    }
}
#[cfg(not(feature = "sync-keys"))]
impl<T> std::ops::Deref for Shared<T> {
    type Target = T;
    fn deref(&self) -> &T {
        &self.0
    }
}
#[cfg(not(feature = "sync-keys"))]
pub fn share<T>(x: T) -> Shared<T> {
    Shared(x)
}

pub trait Fv: 'static {
    const N: usize;
    const LOGN: u8;
    const SIG_LEN: usize;
    const PK_LEN: usize;
    const SK_LEN: usize;
    const BOUND: i64;
    const SIG_HDR: u8;
    type Sk: Clone + Send + MaybeSync + PartialEq + 'static;
    type Pk: Clone + Send + MaybeSync + PartialEq + 'static;
    type Sig: Clone + Send + MaybeSync + PartialEq + 'static;
    fn keygen(seed: [u8; 32]) -> (Self::Sk, Self::Pk);
    /// the other public constructors: operating-system entropy, and the seed expansion without the public key
    fn generate() -> (Self::Sk, Self::Pk);
    fn generate_from_seed(seed: [u8; 32]) -> Self::Sk;
    fn sign(m: &[u8], sk: &Self::Sk) -> Self::Sig;
    fn verify(m: &[u8], sig: &Self::Sig, pk: &Self::Pk) -> bool;
    fn sk_to_bytes(sk: &Self::Sk) -> Vec<u8>;
    fn pk_to_bytes(pk: &Self::Pk) -> Vec<u8>;
    fn sig_to_bytes(sig: &Self::Sig) -> Vec<u8>;
    fn sk_from_bytes(b: &[u8]) -> Result<Self::Sk, String>;
    fn pk_from_bytes(b: &[u8]) -> Result<Self::Pk, String>;
    fn sig_from_bytes(b: &[u8]) -> Result<Self::Sig, String>;
    fn sk_b0(sk: &Self::Sk) -> [Vec<i16>; 4];
    fn sk_leaves(sk: &Self::Sk) -> Vec<f64>;
    fn sk_tree(sk: &Self::Sk) -> Vec<verif::TreeNode>;
    fn sk_from_b0(b0: [Vec<i16>; 4]) -> Self::Sk;
    fn pk_from_sk(sk: &Self::Sk) -> Self::Pk;
}

macro_rules! impl_fv {
    ($name:ident, $m:ident, $n:expr, $logn:expr, $sig:expr, $pk:expr, $sk:expr, $bound:expr, $hdr:expr) => {
        pub struct $name;
        impl Fv for $name {
            const N: usize = $n;
            const LOGN: u8 = $logn;
            const SIG_LEN: usize = $sig;
            const PK_LEN: usize = $pk;
            const SK_LEN: usize = $sk;
            const BOUND: i64 = $bound;
            const SIG_HDR: u8 = $hdr;
            type Sk = $m::SecretKey;
            type Pk = $m::PublicKey;
            type Sig = $m::Signature;
            fn keygen(seed: [u8; 32]) -> (Self::Sk, Self::Pk) {
                $m::keygen(seed)
            }
            fn generate() -> (Self::Sk, Self::Pk) {
                let sk = $m::SecretKey::generate();
                let pk = $m::PublicKey::from_secret_key(&sk);
                (sk, pk)
            }
            fn generate_from_seed(seed: [u8; 32]) -> Self::Sk {
                $m::SecretKey::generate_from_seed(seed)
            }
            fn sign(m: &[u8], sk: &Self::Sk) -> Self::Sig {
                $m::sign(m, sk)
            }
            fn verify(m: &[u8], sig: &Self::Sig, pk: &Self::Pk) -> bool {
                $m::verify(m, sig, pk)
            }
            fn sk_to_bytes(sk: &Self::Sk) -> Vec<u8> {
                sk.to_bytes()
            }
            fn pk_to_bytes(pk: &Self::Pk) -> Vec<u8> {
                pk.to_bytes()
            }
            fn sig_to_bytes(sig: &Self::Sig) -> Vec<u8> {
                sig.to_bytes()
            }
            fn sk_from_bytes(b: &[u8]) -> Result<Self::Sk, String> {
                $m::SecretKey::from_bytes(b).map_err(|e| format!("{:?}", e))
            }
            fn pk_from_bytes(b: &[u8]) -> Result<Self::Pk, String> {
                $m::PublicKey::from_bytes(b).map_err(|e| format!("{:?}", e))
            }
            fn sig_from_bytes(b: &[u8]) -> Result<Self::Sig, String> {
                $m::Signature::from_bytes(b).map_err(|e| format!("{:?}", e))
            }
            fn sk_b0(sk: &Self::Sk) -> [Vec<i16>; 4] {
                verif::sk_b0(sk)
            }
            fn sk_leaves(sk: &Self::Sk) -> Vec<f64> {
                verif::sk_leaves(sk)
            }
            fn sk_tree(sk: &Self::Sk) -> Vec<verif::TreeNode> {
                verif::sk_tree(sk)
            }
            fn sk_from_b0(b0: [Vec<i16>; 4]) -> Self::Sk {
                verif::sk_from_b0::<$n>(b0)
            }
            fn pk_from_sk(sk: &Self::Sk) -> Self::Pk {
                $m::PublicKey::from_secret_key(sk)
            }
        }
    };
}

impl_fv!(V512, falcon512, 512, 9, 666, 897, 1281, 34034726, 0x59);
impl_fv!(V1024, falcon1024, 1024, 10, 1280, 1793, 2305, 70265242, 0x5a);
