use falcon_rust::falcon512;
use falcon_rust::verif;
fn main() {
    let (sk, _) = falcon512::keygen([31u8; 32]);
    let lv = verif::sk_leaves(&sk);
    for x in lv { println!("{:.17e}", x); }
}
