use falcon_rust::math::{babai_reduce_bigint, babai_reduce_i32};
use falcon_rust::polynomial::Polynomial;
fn main() {
    let n = 16;
    let mut f = vec![0i32; n]; f[0]=1; f[1]=2; f[2]=1;
    let g = vec![0i32; n];
    for trial in 0..6 {
        let cf: Vec<i32> = (0..n).map(|i| ((i*7+trial*13)%23) as i32 - 11).collect();
        let cg: Vec<i32> = (0..n).map(|i| ((i*5+trial*3)%19) as i32 - 9).collect();
        let fp = Polynomial::new(f.clone()); let gp = Polynomial::new(g.clone());
        let mut a = Polynomial::new(cf.clone()); let mut b = Polynomial::new(cg.clone());
        let r = babai_reduce_i32(&fp,&gp,&mut a,&mut b);
        println!("trial {} F={:?} -> ok={} F'={:?}", trial, cf, r.is_ok(), a.coefficients);
    }
}
