---------------------------- MODULE Util ----------------------------
(* Evaluation idioms shared by every specification module.                                   *)
(* TLC specifics (measured, DESIGN.md section 2): loops are folds (Java-backed), never         *)
(* RECURSIVE; every intermediate array is forced, because function constructors are lazy.     *)
EXTENDS Integers, Sequences, FiniteSets, TLC, Folds, Functions, FiniteSetsExt, SequencesExt

\* turn a lazy function constructor into an explicit function/tuple
Force(f) == f @@ <<>>

\* the sequence <<a, a+1, ..., b>> (empty if b < a)
Ints(a, b) == [i \in 1..(b - a + 1) |-> a + i - 1]

\* fold over the integers a..b in increasing order: op(acc, i)
FoldRange(op(_, _), base, a, b) == FoldLeft(op, base, Ints(a, b))

\* an array of length n built from an index expression (1-based), forced
Arr(n, F(_)) == Force([i \in 1..n |-> F(i)])

SumSeq(s) == FoldLeft(LAMBDA acc, x : acc + x, 0, s)
MaxSeq(s) == FoldLeft(LAMBDA acc, x : IF x > acc THEN x ELSE acc, s[1], s)
MinSeq(s) == FoldLeft(LAMBDA acc, x : IF x < acc THEN x ELSE acc, s[1], s)
Abs(x) == IF x < 0 THEN -x ELSE x
MaxAbs(s) == FoldLeft(LAMBDA acc, x : IF Abs(x) > acc THEN Abs(x) ELSE acc, 0, s)

\* mathematical (floor) modulus for a possibly negative argument; TLC's % already is floor-mod
\* for positive modulus, the wrapper documents the intent
Mod(a, p) == a % p

\* 2^k for small k
Pow2(k) == 2 ^ k

\* number of trailing elements; sequences equal
SeqEq(a, b) == Len(a) = Len(b) /\ \A i \in 1..Len(a) : a[i] = b[i]

\* first index at which two equal-length sequences differ (0 if none)
FirstDiff(a, b) ==
  LET d == {i \in 1..Len(a) : i > Len(b) \/ a[i] # b[i]}
  IN IF d = {} THEN (IF Len(a) = Len(b) THEN 0 ELSE Len(a) + 1) ELSE Min(d)

\* bit reversal of i on w bits
BitRev(i, w) == FoldRange(LAMBDA acc, k : 2 * acc + ((i \div (2 ^ k)) % 2), 0, 0, w - 1)

\* log2 of a power of two
Log2(n) == CHOOSE k \in 0..30 : 2 ^ k = n
=====================================================================
