----------------------------- MODULE Ntt -----------------------------
(* The negacyclic number-theoretic transform over Z_p, p prime, p = 1 (mod 2n): the butterfly  *)
(* networks of Algorithms 1 and 2 of eprint 2016/504 (Cooley-Tukey forward, Gentleman-Sande     *)
(* inverse, tables of bit-reversed powers of a primitive 2n-th root of unity), one network      *)
(* stage per fold step.  Arrays are 1-based sequences; "index k" below is 0-based, a[k+1].      *)
(* MC_Ntt checks that this network is the evaluation map and that pointwise multiplication      *)
(* under it is Zq!NegacyclicMul; other modules may then use it as a fast evaluator.             *)
EXTENDS Zq

\* tab[j+1] = psi^{bitrev_w(j)} for j in 0..n-1, n = 2^w, psi a primitive 2n-th root of unity mod p
SpecTable(p, psi, n) ==
  LET w == Log2(n)
  IN Arr(n, LAMBDA j : PowM(psi, BitRev(j - 1, w), p))

\* one forward stage: m blocks of size 2t, twiddle tab[m+i] for block i
FwdStage(a, m, t, tab, p) ==
  Arr(Len(a), LAMBDA k1 :
    LET k == k1 - 1  blk == k \div (2 * t)  off == k % (2 * t)  s == tab[m + blk + 1]
    IN IF off < t THEN (a[k1] + a[k1 + t] * s) % p
       ELSE (a[k1 - t] + p * p - a[k1] * s) % p)

\* forward transform of a (length n = power of two, entries in [0,p)); tab has at least n entries
NttFwd(a, tab, p) ==
  LET n == Len(a)  w == Log2(n)
  IN IF n = 1 THEN a
     ELSE FoldRange(LAMBDA acc, s : FwdStage(acc, 2 ^ s, n \div (2 ^ (s + 1)), tab, p), a, 0, w - 1)

\* one inverse stage: h blocks of size 2t, twiddle tabinv[h+i]
InvStage(a, h, t, tabinv, p) ==
  Arr(Len(a), LAMBDA k1 :
    LET k == k1 - 1  blk == k \div (2 * t)  off == k % (2 * t)  s == tabinv[h + blk + 1]
    IN IF off < t THEN (a[k1] + a[k1 + t]) % p
       ELSE (((a[k1 - t] + p - a[k1]) % p) * s) % p)

NttInv(a, tabinv, ninv, p) ==
  LET n == Len(a)  w == Log2(n)
      r == IF n = 1 THEN a
           ELSE FoldRange(LAMBDA acc, s : InvStage(acc, n \div (2 ^ (s + 1)), 2 ^ s, tabinv, p), a, 0, w - 1)
  IN Arr(n, LAMBDA i : (r[i] * ninv) % p)

Hadamard(a, b, p) == Arr(Len(a), LAMBDA i : (a[i] * b[i]) % p)

\* ---- a ready-made context for a prime and a length: [p, n, tab, tabinv, ninv]
\* g must be a generator of Z_p^*; psi = g^((p-1)/2n)
Ctx(p, g, n) ==
  LET psi == PowM(g, (p - 1) \div (2 * n), p)
  IN [p |-> p, n |-> n, psi |-> psi,
      tab |-> SpecTable(p, psi, n), tabinv |-> SpecTable(p, InvM(psi, p), n), ninv |-> InvM(n, p)]

CtxFwd(c, a) == NttFwd(a, c.tab, c.p)
CtxInv(c, a) == NttInv(a, c.tabinv, c.ninv, c.p)
\* negacyclic product through the transform
CtxMul(c, a, b) == CtxInv(c, Hadamard(CtxFwd(c, a), CtxFwd(c, b), c.p))

\* the three NTT-friendly primes used for exact arithmetic over Z by CRT, with generators
P1 == 12289   G1 == 11
P2 == 18433   G2 == 5
P3 == 40961   G3 == 3
=====================================================================
