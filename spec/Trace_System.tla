-------------------------- MODULE Trace_System --------------------------
(* Trace validation of system-level histories against the invariants of Falcon.tla (SaltsFresh,       *)
(* KeygenFunctional, SeedSensitive, Completeness on the code's own verdicts).  Events carry            *)
(* (process, thread, per-thread sequence number); no wall-clock order is used: the properties are     *)
(* over the set of calls, so every merge of the per-thread sequences is judged alike.                *)
(*   {"ev":"sign","proc","thr","seq","n","key","msg","hdr","salt":[40],"siglen","verified","body_sha3"} *)
(*   {"ev":"keygen","proc","thr","seq","n","seed":[32],"sk_sha3","pk_sha3","sklen","pklen","tag"}       *)
(* Per event: fixed sizes, header, the code's own verify verdict TRUE.  Over the history (evaluated    *)
(* once, reported as the final HISTORY verdicts):                                                   *)
(*   salts-fresh      : no two sign events share a salt (any thread, process, key, message)           *)
(*   salt-positions   : every one of the 40 byte positions takes >= MinDistinct distinct values        *)
(*   same-msg-differs : two signatures of one (process, key, message) differ in body as well           *)
(*   keygen-function  : all keygen events of one seed report identical key digests                    *)
(*   keygen-injective : keygen events of different seeds report different secret and public keys      *)
EXTENDS Params, TraceLib
VARIABLES l, bad
vars == <<l, bad>>

SignIdx == {i \in 1..NRec : Rec[i].ev = "sign"}
KgIdx == {i \in 1..NRec : Rec[i].ev = "keygen"}
NSign == Cardinality(SignIdx)

Judge(e) ==
  LET P == ParamsOf(e.n) IN
  IF e.ev = "sign" THEN
    [ok |-> e.siglen = P.siglen /\ e.hdr = P.sighdr /\ Len(e.salt) = SaltLen /\ e.verified, branch |-> "sign"]
  ELSE
    [ok |-> e.sklen = P.sklen /\ e.pklen = P.pklen, branch |-> "keygen-" \o e.tag]

\* thresholds: with N uniform bytes per position, fewer than MinDistinct distinct values has probability
\* < 1e-30 for N >= 5000 (and < 1e-12 for the small-N rule); a constant or counter-like position fails
MinDistinct == IF NSign >= 5000 THEN 200 ELSE IF NSign >= 500 THEN 100 ELSE IF NSign >= 50 THEN 16 ELSE 0

SaltSet == {Rec[i].salt : i \in SignIdx}
SaltsFresh == Cardinality(SaltSet) = NSign
PositionsOK == \A p \in 1..SaltLen : Cardinality({Rec[i].salt[p] : i \in SignIdx}) >= MinDistinct
\* (process, key, message, body digest) classes: as many as sign events iff same message never gives the same body
SameMsgDiffers == Cardinality({<<Rec[i].proc, Rec[i].n, Rec[i].key, Rec[i].msg, Rec[i].body_sha3>> : i \in SignIdx}) = NSign
SeedSet == {<<Rec[i].n, Rec[i].seed>> : i \in KgIdx}
KeygenFunction == \A s \in SeedSet :
   Cardinality({<<Rec[i].sk_sha3, Rec[i].pk_sha3>> : i \in {j \in KgIdx : <<Rec[j].n, Rec[j].seed>> = s}}) = 1
KeygenInjective == /\ Cardinality({<<Rec[i].n, Rec[i].sk_sha3>> : i \in KgIdx}) = Cardinality(SeedSet)
                   /\ Cardinality({<<Rec[i].n, Rec[i].pk_sha3>> : i \in KgIdx}) = Cardinality(SeedSet)

History == <<
  [name |-> "salts-fresh", ok |-> SaltsFresh, detail |-> <<NSign, Cardinality(SaltSet)>>],
  [name |-> "salt-positions", ok |-> PositionsOK, detail |-> <<NSign, MinDistinct>>],
  [name |-> "same-msg-differs", ok |-> SameMsgDiffers, detail |-> <<NSign>>],
  [name |-> "keygen-function", ok |-> KeygenFunction, detail |-> <<Cardinality(KgIdx), Cardinality(SeedSet)>>],
  [name |-> "keygen-injective", ok |-> KeygenInjective, detail |-> <<Cardinality(KgIdx), Cardinality(SeedSet)>>] >>

ASSUME TLCSet(2, Force([i \in 1..NRec |-> Judge(Rec[i])]))
Judged == TLCGet(2)
ASSUME TLCSet(3, History)
Hist == TLCGet(3)

Init == l = 1 /\ bad = {}
Next == /\ l <= NRec
        /\ LET j == Judged[l] IN
             /\ (IF j.ok THEN TRUE ELSE PrintT(<<"VERDICT", l, "MISMATCH", j.branch>>))
             /\ bad' = IF j.ok THEN bad ELSE bad \cup {l}
        /\ l' = l + 1
        /\ (IF l < NRec THEN TRUE ELSE (/\ \A k \in 1..Len(Hist) : PrintT(<<"HISTORY", k, IF Hist[k].ok THEN "ok" ELSE "MISMATCH", Hist[k].name, Hist[k].detail>>)
                         /\ PrintT(<<"DONE", NRec, bad'>>)))
Spec == Init /\ [][Next]_vars
TraceAccepted == TLCGet("stats").diameter = NRec + 1
=====================================================================
