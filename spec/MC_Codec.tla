---------------------------- MODULE MC_Codec ----------------------------
(* Exhaustive theorems about the compression codec (Codec.tla) and about the implementation-shaped  *)
(* model of falcon-rust's decompress (ImplCodec.tla), over ALL byte strings of length L and all       *)
(* small vectors, with a toy run bound HM (the production bound 95 needs strings of >= 13 bytes; the  *)
(* bound's production value is exercised on structured families by Gen_Codec / Trace_Codec).        *)
(*   Canon     : SpecDecompress(x,n) = Some(v) => SpecCompress(v,L) = Some(x)                         *)
(*   RoundTrip : SpecCompress(v,L) = Some(x) <=> bits(v) <= 8L, and then SpecDecompress(x,n) = v      *)
(*   Refines   : ImplDecompress(x,n) is never a panic and equals SpecDecompress(x,n)                 *)
(*   Defects   : the pre-fix variants of the model DO reach panic / disagree (vacuity guard, and the  *)
(*               model-level reproduction of the defects D2 and D8 of DESIGN.md section 6)           *)
(* One TLC state per first byte (256 states, 16 workers); each state's invariant quantifies over the  *)
(* remaining bytes.                                                                              *)
EXTENDS ImplCodec
CONSTANTS L, NMax, HM, Variant, FirstBytes   \* Variant: "fixed" | "prefix-D8" | "prefix-D2"

VARIABLE b0
AllBytes == 0..255
FewBytes == {0, 1, 2, 3, 5, 127, 128, 255}
VBox == {-300, -129, -128, -127, -1, 0, 1, 127, 128, 129, 300}
Strings(first) == {<<first>> \o t : t \in [1..(L - 1) -> 0..255]}

Guard == IF Variant = "prefix-D8" THEN 8 ELSE 9
Bounded == Variant # "prefix-D2"

CanonAndRefines(first) ==
  \A x \in Strings(first) : \A n \in 1..NMax :
    LET d == SpecDecompressH(x, n, HM)
        i == ImplDecompressV(x, n, HM, Guard, Bounded)
    IN /\ d.ok => LET c == SpecCompress(d.v, L) IN c.ok /\ c.x = x
       /\ i.st \in {"none", "some"}
       /\ (i.st = "some") = d.ok
       /\ d.ok => i.v = d.v

\* all vectors of length <= NMax over the box, attached to the state b0 = 0 only
Vectors == UNION {[1..n -> VBox] : n \in 1..NMax}
VSeq == SetToSeq(VBox)
\* the vectors whose first entry is the (k+1)-th box value are checked in state b0 = k
RoundTrip(k) ==
  \A v \in {w \in Vectors : k < Len(VSeq) /\ w[1] = VSeq[k + 1]} : \A LL \in 1..(L + 1) :
    LET c == SpecCompress(v, LL)
    IN /\ c.ok = (TotalBits(v) <= 8 * LL)
       /\ c.ok => (Len(c.x) = LL /\ LET d == SpecDecompressH(c.x, Len(v), 100000) IN d.ok /\ d.v = v)

\* b0 = -1: root; -2-k: shard k; >= 0: a first byte (two-level fan-out so that all workers share the work)
Init == b0 = -1
Next == \/ b0 = -1 /\ \E k \in 0..15 : b0' = -2 - k
        \/ b0 <= -2 /\ \E f \in FirstBytes : f % 16 = -2 - b0 /\ b0' = f
Spec == Init /\ [][Next]_b0
Theorems == b0 < 0 \/ (CanonAndRefines(b0) /\ RoundTrip(b0))
=====================================================================
