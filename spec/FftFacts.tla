---------------------------- MODULE FftFacts ----------------------------
(* What the floating-point transform layer must satisfy, stated against exact ground truth (C13).            *)
(*  Accuracy: for integer vectors a, b the code's result v of a composition (product through the transform,     *)
(*  round trip, merge, split, merge o split) satisfies  ||v - exact||_inf <= 2^-30 ||a|| ||b||   (||b|| = 1 for the *)
(*  unary compositions).  The driver ships v as R = round(v) and rho = round((v - R) 2^30); in units of 2^-28     *)
(*  the error of coefficient i is  s_i = (R_i - E_i) 2^28 + rho_i / 4,  and the demand is                       *)
(*      16 s_max^2 <= ||a||^2 ||b||^2  (+ one unit of slack for the quantisation of rho), compared on BigNat.    *)
(*  Table: the 1024 complex constants are exp(i pi brv10(j) / 1024); on their exact dyadic values, up to 2^-50:   *)
(*      T[0] = 1;  T[2j]^2 = T[j] with Re T[2j] > 0 and Im T[2j] >= 0 (principal root);  T[2j+1] = i T[2j]      *)
(*  (j = 0..511) -- these recurrences determine every entry.  MC_Fft checks the index algebra behind them.      *)
EXTENDS F64, Zq
\* signed fixed point with 56 fractional bits: [neg, mag (BigNat)] from a double |v| <= 2
Fix56(w) == LET v == FFromWords(w) IN [neg |-> v.sg = 1 /\ ~FIsZero(v), mag |-> IF FIsZero(v) THEN <<>> ELSE FFloorScaled([v EXCEPT !.sg = 0], 56)]
SAdd(a, b) == IF a.neg = b.neg THEN [neg |-> a.neg, mag |-> BAdd(a.mag, b.mag)]
              ELSE IF BLe(b.mag, a.mag) THEN [neg |-> a.neg /\ BCmp(a.mag, b.mag) # 0, mag |-> BSub(a.mag, b.mag)]
              ELSE [neg |-> b.neg, mag |-> BSub(b.mag, a.mag)]
SNeg(a) == [neg |-> ~a.neg /\ a.mag # <<>>, mag |-> a.mag]
SMul56(a, b) == [neg |-> (a.neg # b.neg) /\ a.mag # <<>> /\ b.mag # <<>>, mag |-> BShr(BMul(a.mag, b.mag), 56)]
\* |a - b| <= 2^(56-50) = 64 units
Close(a, b) == BLe(SAdd(a, SNeg(b)).mag, BFromSmall(64))
One56 == [neg |-> FALSE, mag |-> BShl(<<1>>, 56)]
\* table t: sequence of <<re words, im words>>, 1-based index j+1
TableFacts(t) ==
  LET re(j) == Fix56(t[j + 1][1])  im(j) == Fix56(t[j + 1][2])
      badroot == {j \in 1..511 : LET r == re(2 * j)  i == im(2 * j) IN
                    ~(/\ Close(SAdd(SMul56(r, r), SNeg(SMul56(i, i))), re(j))
                      /\ Close(SMul56([r EXCEPT !.mag = BShl(r.mag, 1)], i), im(j))
                      /\ ~r.neg /\ r.mag # <<>> /\ ~i.neg)}
      badrot == {j \in 0..511 : ~(Close(re(2 * j + 1), SNeg(im(2 * j))) /\ Close(im(2 * j + 1), re(2 * j)))}
  IN [len |-> Len(t) = 1024, first |-> Close(re(0), One56) /\ im(0).mag = <<>>, badroot |-> badroot, badrot |-> badrot]
\* ground truths of the compositions (inputs are integer vectors)
Interleave2(a0, a1) == Arr(2 * Len(a0), LAMBDA i : IF i % 2 = 1 THEN a0[(i + 1) \div 2] ELSE a1[i \div 2])
Evens(a) == Arr(Len(a) \div 2, LAMBDA i : a[2 * i - 1])
Odds(a) == Arr(Len(a) \div 2, LAMBDA i : a[2 * i])
Truth(kind, a, b) == IF kind = "mul" THEN NegacyclicMulZ(a, b)
                     ELSE IF kind = "split" THEN Evens(a) \o Odds(a)
                     ELSE a          \* roundtrip, merge (the driver passes a = interleave(a0, a1)), mergesplit
\* maximal error in units of 2^-28, saturated
SMax(R, rho, E) ==
  FoldRange(LAMBDA acc, i : LET d == R[i] - E[i]
                                s == IF Abs(d) > 3 THEN 1073741823 ELSE Abs(d * 268435456 + (rho[i] \div 4))
                            IN IF s > acc THEN s ELSE acc, 0, 1, Len(E))
\* squared norm on BigNat (entries up to 2^14, n up to 1024)
BNormSq(v) == FoldLeft(LAMBDA acc, x : BAdd(acc, BFromSmall(x * x)), <<>>, v)
Accurate(kind, a, b, R, rho) ==
  LET E == Truth(kind, a, b)
      smax == SMax(R, rho, E)
      na == BNormSq(a)  nb == IF kind = "mul" THEN BNormSq(b) ELSE <<1>>
      lhs == BShl(BMul(BFromSmall(IF smax > 1 THEN smax - 1 ELSE 0), BFromSmall(IF smax > 1 THEN smax - 1 ELSE 0)), 4)
  IN [ok |-> Len(R) = Len(E) /\ BLe(lhs, BMul(na, nb)), smax |-> smax]
=====================================================================
