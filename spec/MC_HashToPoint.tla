------------------------- MODULE MC_HashToPoint -------------------------
(* Theorems about the HashToPoint reader (HashToPoint.tla) on ALL pseudo-streams of Chunks 16-bit chunks   *)
(* over a boundary alphabet {0, 12288, 12289, 61444, 61445, 65535}: output length min(n, #accepted),      *)
(* range [0,q), rejection exactly of chunks >= 61445, reduction mod q, prefix property, and the number of *)
(* bytes consumed.                                                                                 *)
EXTENDS HashToPoint
CONSTANTS Chunks, N
VARIABLE s
Alphabet == {0, 12288, 12289, 61444, 61445, 65535}
StreamOf(cs) == FoldLeft(LAMBDA acc, c : acc \o <<c \div 256, c % 256>>, <<>>, cs)
Accepted(cs) == SelectSeq(cs, LAMBDA c : c < 61445)
Holds(cs) ==
  LET st == StreamOf(cs)  out == RunOnStream(st, N)  acc == Accepted(cs)
      want == [i \in 1..(IF Len(acc) < N THEN Len(acc) ELSE N) |-> acc[i] % Q]
  IN /\ out = want
     /\ \A i \in 1..Len(out) : out[i] \in 0..(Q - 1)
     /\ (N >= 2 => RunOnStream(st, N \div 2) = SubSeq(out, 1, IF Len(out) < N \div 2 THEN Len(out) ELSE N \div 2))
     /\ Consumed(st, N).got = Len(out)
Init == s \in [1..Chunks -> Alphabet]
Next == UNCHANGED s
Spec == Init /\ [][Next]_s
Theorems == Holds(s)
=====================================================================
