------------------------------ MODULE Stats ------------------------------
(* Integer statistics for the distributional properties.  Probabilities of the discrete Gaussian             *)
(* D_{Z,mu,sigma}(z) = rho(z) / SUM rho, rho(z) = exp(-(z-mu)^2 / 2 sigma^2), for the (mu, sigma) pairs the driver   *)
(* samples, scaled by 2^30 (computed once with 40-digit arithmetic; they are mathematical constants of the     *)
(* specification, bins z = floor(mu)-20 .. floor(mu)+21).  Pearson's statistic is evaluated by TLC in integer     *)
(* arithmetic (scaled by 16) and compared with the 1e-9 quantile of the chi-square law (table below, scaled by   *)
(* 16, indexed by degrees of freedom), so a correct sampler raises an alarm with probability < 1e-9 per pair.   *)
EXTENDS Util
GaussP == <<
  <<0, 0, 0, 0, 0, 0, 0, 0, 0, 0, 0, 0, 1, 102, 5468, 158741, 2497819, 21304060, 98489956, 246802574, 335224382, 246802574, 98489956, 21304060, 2497819, 158741, 5468, 102, 1, 0, 0, 0, 0, 0, 0, 0, 0, 0, 0, 0, 0, 0>>,
  <<0, 0, 0, 0, 0, 0, 0, 0, 0, 0, 0, 1, 30, 1064, 23888, 343791, 3172441, 18770359, 71208510, 173209391, 270141437, 270141437, 173209391, 71208510, 18770359, 3172441, 343791, 23888, 1064, 30, 1, 0, 0, 0, 0, 0, 0, 0, 0, 0, 0, 0>>,
  <<0, 0, 0, 0, 0, 0, 0, 0, 0, 0, 7, 161, 2585, 30686, 269422, 1749359, 8400122, 29829941, 78339264, 152148215, 218531739, 232125293, 182343670, 105930056, 45510122, 14459626, 3397555, 590386, 75869, 7210, 507, 26, 1, 0, 0, 0, 0, 0, 0, 0, 0, 0>>,
  <<0, 0, 0, 0, 0, 0, 0, 0, 0, 0, 0, 0, 1, 56, 3062, 92803, 1553988, 14377172, 73491829, 207560362, 323884061, 279238003, 133014585, 35007717, 5090590, 408990, 18155, 445, 6, 0, 0, 0, 0, 0, 0, 0, 0, 0, 0, 0, 0, 0>>,
  <<0, 0, 0, 0, 0, 0, 0, 0, 0, 0, 3, 94, 1938, 28311, 292620, 2139858, 11071100, 40524873, 104948843, 192290905, 249267078, 228610512, 148338049, 68097947, 22117731, 5082439, 826283, 95041, 7734, 445, 18, 1, 0, 0, 0, 0, 0, 0, 0, 0, 0, 0>>,
  <<0, 0, 0, 0, 0, 0, 0, 0, 0, 0, 0, 0, 16, 693, 18992, 320044, 3314004, 21086667, 82446967, 198085784, 292444736, 265305457, 147897364, 50662493, 10664109, 1379350, 109632, 5354, 161, 3, 0, 0, 0, 0, 0, 0, 0, 0, 0, 0, 0, 0>> >>
\* ceil(16 * chi2.isf(1e-9, df)) for df = 1..45
Chi2Crit16 == <<598, 664, 718, 767, 812, 854, 894, 933, 971, 1008, 1043, 1078, 1112, 1146, 1179, 1211, 1243, 1274, 1305, 1336, 1367, 1397, 1426, 1456, 1485, 1514, 1543, 1571, 1600, 1628, 1656, 1683, 1711, 1738, 1765, 1793, 1819, 1846, 1873, 1899, 1926, 1952, 1978, 2004, 2030>>
MinExpected == 20
\* expected count n * P / 2^30 of a bin, as ((n / 2^10) (P / 2^10)) / 2^10: every intermediate value is below 2^31 for
\* n <= 5 242 880; the driver uses sample counts that are multiples of 1024, so the first division is exact
Expected(P, n) == ((n \div 1024) * (P \div 1024)) \div 1024
\* merge the tails until every bin has at least MinExpected expected observations: returns [obs, exp] sequences
Binned(hist, Pr, n) ==
  LET K == Len(hist)
      ex == [k \in 1..K |-> Expected(Pr[k], n)]
      lo == Min({k \in 1..K : ex[k] >= MinExpected})
      hi == Max({k \in 1..K : ex[k] >= MinExpected})
      sumTo(f, a, b) == FoldRange(LAMBDA acc, i : acc + f[i], 0, a, b)
      obs == [j \in 1..(hi - lo + 1) |-> IF j = 1 THEN sumTo(hist, 1, lo) ELSE IF j = hi - lo + 1 THEN sumTo(hist, hi, K) ELSE hist[lo + j - 1]]
      exx == [j \in 1..(hi - lo + 1) |-> IF j = 1 THEN sumTo(ex, 1, lo) ELSE IF j = hi - lo + 1 THEN sumTo(ex, hi, K) ELSE ex[lo + j - 1]]
  IN [obs |-> obs, exp |-> exx]
\* 16 * SUM (O-E)^2 / E with saturation (each term capped; |O-E| capped at 40000)
Chi2x16(obs, exp) ==
  FoldRange(LAMBDA acc, j :
              LET d0 == Abs(obs[j] - exp[j])  d == IF d0 > 40000 THEN 40000 ELSE d0  e == exp[j]
                  t == (((d * d) \div e) * 16) + ((((d * d) % e) * 16) \div e)
              IN acc + (IF ((d * d) \div e) > 60000 THEN 1000000 ELSE t),
            0, 1, Len(obs))
=====================================================================
