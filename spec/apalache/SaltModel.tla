---------------------------- MODULE SaltModel ----------------------------
(* The entropy / salt abstraction of Falcon.tla on its own, for an UNBOUNDED number of sign calls and retries,       *)
(* checked with Apalache by an inductive invariant (the TLC configurations bound calls and retries).                *)
(* Each thread owns a stream of fresh tokens <<thread, position>>; a sign call draws its salt once, then any number of *)
(* seeds (one per outer retry), and returns.  Claim: no two returned signatures share a salt (C08, model level).      *)
EXTENDS Integers, FiniteSets, Apalache

CONSTANT
  \* @type: Set(Str);
  Threads

VARIABLES
  \* @type: Str -> Int;
  pos,
  \* @type: Str -> Str;
  pc,
  \* @type: Str -> <<Str, Int>>;
  salt,
  \* @type: Set(<<Str, Int>>);
  issued

ConstInit == Threads = {"t1", "t2", "t3"}

Init == /\ pos = [t \in Threads |-> 0]
        /\ pc = [t \in Threads |-> "idle"]
        /\ salt = [t \in Threads |-> <<t, -1>>]
        /\ issued = {}

Begin(t)    == pc[t] = "idle" /\ pc' = [pc EXCEPT ![t] = "salt"] /\ UNCHANGED <<pos, salt, issued>>
DrawSalt(t) == /\ pc[t] = "salt"
               /\ salt' = [salt EXCEPT ![t] = <<t, pos[t]>>]
               /\ pos' = [pos EXCEPT ![t] = @ + 1]
               /\ pc' = [pc EXCEPT ![t] = "loop"]
               /\ UNCHANGED issued
DrawSeed(t) == pc[t] = "loop" /\ pos' = [pos EXCEPT ![t] = @ + 1] /\ UNCHANGED <<pc, salt, issued>>
Return(t)   == /\ pc[t] = "loop"
               /\ issued' = issued \union {salt[t]}
               /\ pc' = [pc EXCEPT ![t] = "idle"]
               /\ UNCHANGED <<pos, salt>>
Next == \E t \in Threads : Begin(t) \/ DrawSalt(t) \/ DrawSeed(t) \/ Return(t)

\* the property: a salt about to be returned has never been returned before
FreshOnReturn == \A t \in Threads : pc[t] = "loop" => (salt[t] \notin issued \/ FALSE)

\* inductive invariant
IndInv ==
  /\ \A t \in Threads : pos[t] >= 0 /\ pc[t] \in {"idle", "salt", "loop"}
  /\ \A s \in issued : s[1] \in Threads /\ s[2] >= 0 /\ s[2] < pos[s[1]]
  /\ \A t \in Threads : pc[t] = "loop" => (salt[t][1] = t /\ salt[t][2] >= 0 /\ salt[t][2] < pos[t] /\ salt[t] \notin issued)
  /\ \A t \in Threads : pc[t] # "loop" => TRUE

\* arbitrary state satisfying the invariant (integers unbounded; at most 6 issued salts in the symbolic state)
IndInit == /\ pos = Gen(3) /\ pc = Gen(3) /\ salt = Gen(3) /\ issued = Gen(6)
           /\ DOMAIN pos = Threads /\ DOMAIN pc = Threads /\ DOMAIN salt = Threads
           /\ IndInv
\* the invariant implies the property
Implies == IndInv => FreshOnReturn
=====================================================================
