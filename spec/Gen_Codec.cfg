SPECIFICATION Spec
INVARIANT Written
CHECK_DEADLOCK FALSE
CONSTANTS L = 2 NMax = 3 Mode = "full"
