----------------------------- MODULE MC_Ntru -----------------------------
(* Validates the fast evaluation of the key predicate used on real keys (Crt!DetEquals: two NTT primes   *)
(* plus a magnitude bound) against the schoolbook definition over Z, on all small (f, g, F, G) of the ring *)
(* Z[x]/(x^4+1) with entries in a box, for several right-hand sides k.                                  *)
EXTENDS Crt
VARIABLE f
Box == -1..1
Vec4(S) == [1..4 -> S]
SchoolDet(x, y, z, w, k) == VecSub(NegacyclicMulZ(x, y), NegacyclicMulZ(z, w)) = <<k, 0, 0, 0>>
Holds(ff) == \A g \in {v \in Vec4(Box) : v[3] = 0 /\ v[4] \in {0, 1}} : \A F \in {<<2, -3, 0, 1>>, <<0, 0, 0, 0>>, <<-5, 4, 3, -2>>} :
               \A G \in {<<1, 0, -2, 3>>, <<4, 4, -4, 1>>} : \A k \in {0, 1, 17, 12289} :
                 LET d == DetEquals(ff, G, g, F, k) IN d.bounded /\ (d.holds = SchoolDet(ff, G, g, F, k))
\* and on a genuine solution: f = 1 + x, g = 1, F = 0, G chosen so that f G = q
Genuine == LET ff == <<3, 1, 0, 0>>  g == <<1, 2, 0, 0>>
               sols == {FG \in {<<a, b>> : a \in Vec4(-3..3), b \in {<<x, y, 0, 0>> : x, y \in -9..9}} : SchoolDet(ff, FG[2], g, FG[1], 17)}
           IN \A FG \in sols : DetEquals(ff, FG[2], g, FG[1], 17).holds
\* two-level fan-out (root -> 16 shards -> jobs) so that all workers share the jobs
JobSeq == SetToSeq(Vec4(Box))
Init == f = <<-100>>
Next == \/ f = <<-100>> /\ \E k \in 0..15 : f' = <<-200, k>>
        \/ f[1] = -200 /\ \E i \in 1..Len(JobSeq) : i % 16 = f[2] /\ f' = JobSeq[i]
Spec == Init /\ [][Next]_f
Theorems == f[1] \in {-100, -200} \/ Holds(f)
=====================================================================
