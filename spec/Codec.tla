----------------------------- MODULE Codec -----------------------------
(* Algorithms 17 (Compress) and 18 (Decompress) of the Falcon specification at bit level.          *)
(* Per coefficient: sign bit | 7 low bits of |v| | floor(|v| / 128) zero bits | one 1 bit.         *)
(* Decompress is a cursor machine: `ReadCoeff` is its action; `CheckPadding` closes the run.       *)
(* Rejections: truncated coefficient, unary run >= HighMax (|v| >= 12160), "-0", set padding bit.  *)
EXTENDS Bits, Params

CoeffBits(v) ==
  LET a == Abs(v) IN
  <<IF v < 0 THEN 1 ELSE 0>> \o BitsOfInt(a % 128, 7) \o [j \in 1..(a \div 128) |-> 0] \o <<1>>
CoeffLen(v) == 9 + (Abs(v) \div 128)
TotalBits(v) == FoldLeft(LAMBDA acc, x : acc + CoeffLen(x), 0, v)

\* Algorithm 17: [ok, x]; fails iff v is empty or the encoding exceeds 8*L bits
SpecCompress(v, L) ==
  IF Len(v) = 0 \/ TotalBits(v) > 8 * L THEN [ok |-> FALSE, x |-> <<>>]
  ELSE LET bits == FoldLeft(LAMBDA acc, c : acc \o CoeffBits(c), <<>>, v)
           padded == bits \o [j \in 1..(8 * L - Len(bits)) |-> 0]
       IN [ok |-> TRUE, x |-> BytesOfBits(padded)]

\* Decompress machine state: [ok, idx (0-based cursor), v, why]
DecInit == [ok |-> TRUE, idx |-> 0, v |-> <<>>, why |-> "ok"]
\* action ReadCoeff on bit array `bits` of length nbits
ReadCoeffH(st, bits, nbits, hm) ==
  IF ~st.ok THEN st
  ELSE IF st.idx + 9 > nbits THEN [st EXCEPT !.ok = FALSE, !.why = "truncated"]
  ELSE LET sgn == bits[st.idx + 1]
           low == FieldB(bits, st.idx + 1, 7)
           \* candidates for the terminating 1 of the unary run
           ks == {k \in 0..hm : st.idx + 8 + k < nbits /\ bits[st.idx + 8 + k + 1] = 1}
       IN IF ks = {} THEN [st EXCEPT !.ok = FALSE,
                                     !.why = IF st.idx + 8 + hm < nbits THEN "run-too-long" ELSE "unterminated"]
          ELSE LET k == Min(ks)  mag == 128 * k + low
               IN IF k >= hm THEN [st EXCEPT !.ok = FALSE, !.why = "run-too-long"]
                  ELSE IF mag = 0 /\ sgn = 1 THEN [st EXCEPT !.ok = FALSE, !.why = "minus-zero"]
                  ELSE [ok |-> TRUE, idx |-> st.idx + 9 + k,
                        v |-> Append(st.v, IF sgn = 1 THEN -mag ELSE mag), why |-> "ok"]
\* final action
CheckPadding(st, bits, nbits) ==
  IF ~st.ok THEN st
  ELSE IF \A j \in st.idx..(nbits - 1) : bits[j + 1] = 0 THEN st
  ELSE [st EXCEPT !.ok = FALSE, !.why = "padding"]

\* Algorithm 18: [ok, v, why] for byte string x and n coefficients; hm = smallest rejected run length
SpecDecompressH(x, n, hm) ==
  LET bits == BitArr(x)  nbits == 8 * Len(x)
      r == FoldRange(LAMBDA st, i : ReadCoeffH(st, bits, nbits, hm), DecInit, 1, n)
      f == CheckPadding(r, bits, nbits)
  IN IF n = 0 THEN [ok |-> FALSE, v |-> <<>>, why |-> "empty"]
     ELSE [ok |-> f.ok, v |-> IF f.ok THEN f.v ELSE <<>>, why |-> f.why]
ReadCoeff(st, bits, nbits) == ReadCoeffH(st, bits, nbits, HighMax)
SpecDecompress(x, n) == SpecDecompressH(x, n, HighMax)
=====================================================================
