---------------------------- MODULE Trace_U32 ----------------------------
(* Trace validation of the 30-bit prime field (p = 1073754113) used by the multi-modular Babai reduction and     *)
(* the NTRU solver: element operations, tables and transforms (hook wrappers) against arithmetic mod p.           *)
(* Products modulo p do not fit TLC's 32-bit integers: MulP is double-and-add with every intermediate < 2p < 2^31. *)
(*  {"ev":"u32bin","a","b","add","sub","mul"}  {"ev":"u32un","a","neg","inv","bal"}  {"ev":"u32new","v","res"}       *)
(*  {"ev":"u32tables","powers","powers_inv","ninv_n","ninv"}  {"ev":"u32mul","n","a","b","prod","rt"}               *)
(* A panic is recorded as -99999 and never conforms.                                                          *)
EXTENDS Zq, TraceLib
UP == 1073754113
VARIABLES l, bad
vars == <<l, bad>>
AddP(a, b) == LET s == a - UP + b IN IF s < 0 THEN s + UP ELSE s          \* a, b < p: a - p + b avoids overflow
SubP(a, b) == LET d == a - b IN IF d < 0 THEN d + UP ELSE d
MulP(a, b) == FoldRange(LAMBDA acc, k : LET i == 30 - k  d == AddP(acc, acc) IN IF (b \div (2 ^ i)) % 2 = 1 THEN AddP(d, a) ELSE d, 0, 0, 30)   \* p > 2^30: operands have 31 bits
PowP(a, e) == LET r == FoldRange(LAMBDA acc, k : [res |-> IF (e \div (2 ^ k)) % 2 = 1 THEN MulP(acc.res, acc.sq) ELSE acc.res, sq |-> MulP(acc.sq, acc.sq)],
                                 [res |-> 1, sq |-> a], 0, 30) IN r.res
InvP(a) == IF a = 0 THEN 0 ELSE PowP(a, UP - 2)
BalP(a) == IF a > UP \div 2 THEN a - UP ELSE a
\* canonical residue of a signed 32-bit integer (|v| < 2^31)
ResP(v) == IF v >= 0 THEN (IF v >= UP THEN v - UP ELSE v) ELSE (LET w == v + UP IN IF w < 0 THEN w + UP ELSE w)
Judge(e) ==
  IF e.ev = "u32bin" THEN
    LET ok == e.add = AddP(e.a, e.b) /\ e.sub = SubP(e.a, e.b) /\ e.mul = MulP(e.a, e.b)
              /\ e.add_assign = e.add /\ e.sub_assign = e.sub /\ e.mul_assign = e.mul /\ e.multiply = e.mul
              /\ (e.b # 0 => (e.div >= 0 /\ e.div < UP /\ MulP(e.div, e.b) = e.a))
    IN [ok |-> ok, branch |-> "bin", detail |-> IF ok THEN <<>> ELSE <<e.a, e.b, "spec", AddP(e.a, e.b), SubP(e.a, e.b), MulP(e.a, e.b)>>]
  ELSE IF e.ev = "u32un" THEN
    LET ok == e.neg = SubP(0, e.a) /\ e.inv = InvP(e.a) /\ e.bal = BalP(e.a) /\ (e.a # 0 => MulP(e.a, e.inv) = 1)
    IN [ok |-> ok, branch |-> "un", detail |-> <<e.a>>]
  ELSE IF e.ev = "u32new" THEN
    [ok |-> e.res = ResP(e.v), branch |-> "new", detail |-> <<e.v, ResP(e.v)>>]
  ELSE IF e.ev = "u32tables" THEN
    LET psi == e.powers[513]  ipsi == InvP(psi)
        okroot == PowP(psi, 1024) = UP - 1
        badp == {j \in 0..1023 : e.powers[j + 1] # PowP(psi, BitRev(j, 10))}
        badi == {j \in 0..1023 : e.powers_inv[j + 1] # PowP(ipsi, BitRev(j, 10))}
        badn == {k \in 1..Len(e.ninv) : MulP(e.ninv_n[k], e.ninv[k]) # 1}
        ok == okroot /\ Len(e.powers) = 1024 /\ Len(e.powers_inv) = 1024 /\ badp = {} /\ badi = {} /\ badn = {}
    IN [ok |-> ok, branch |-> "tables", detail |-> IF ok THEN <<1024>> ELSE <<okroot, badp, badi, badn>>]
  ELSE IF e.ev = "u32rt" THEN
    \* both compositions of the two transforms are the identity, on structured vectors over the whole range [0, p), and the
    \* transform of such a vector stays canonical
    LET ok == e.fwd_inv = e.a /\ e.inv_fwd = e.a /\ (\A i \in 1..Len(e.fwd) : e.fwd[i] >= 0 /\ e.fwd[i] < UP)
    IN [ok |-> ok, branch |-> "rt-n" \o ToString(e.n), detail |-> <<>>]
  ELSE
    \* exact product over Z (entries small enough: n * 2000 * 100 < 2^29) and round trip
    LET ok == e.prod = NegacyclicMulZ(e.a, e.b) /\ e.rt = e.a
    IN [ok |-> ok, branch |-> "mul-n" \o ToString(e.n), detail |-> <<>>]
ASSUME TLCSet(2, Force([i \in 1..NRec |-> Judge(Rec[i])]))
Judged == TLCGet(2)
Init == l = 1 /\ bad = {}
Next == /\ l <= NRec
        /\ LET j == Judged[l] IN
             /\ (IF j.ok THEN TRUE ELSE PrintT(<<"VERDICT", l, "MISMATCH", j.branch, j.detail>>))
             /\ bad' = IF j.ok THEN bad ELSE bad \cup {l}
        /\ l' = l + 1
        /\ (IF l < NRec THEN TRUE ELSE PrintT(<<"DONE", NRec, bad'>>))
Spec == Init /\ [][Next]_vars
TraceAccepted == TLCGet("stats").diameter = NRec + 1
=====================================================================
