SPECIFICATION Spec
INVARIANT Theorems
PROPERTY Returns
CHECK_DEADLOCK FALSE
CONSTANT Variant = "fixed"
