--------------------------- MODULE Trace_Decode ---------------------------
(* Trace validation of recorded from_bytes calls of the three object types against KeyCodec.tla.     *)
(* Events: {"ev":"decode","type":"pk"|"sk"|"sig","n":512|1024,"b":[bytes],"res":"ok"|"err"|"panic", *)
(*          "reenc":[bytes of to_bytes() of the decoded object, if ok],"tag":..}                      *)
(*         {"ev":"bulk","cases":k,"panics":p,"noncanonical":c,"tag":..}                              *)
(* Conformance: res = "ok" exactly when the specification's decoder accepts b for the variant n the   *)
(* caller asked for; an accepted string re-encodes (by the code, and by the specification's encoder)  *)
(* to itself; a panic never conforms.  "verify" is the outcome of calling verify with the decoded public key /   *)
(* signature together with an honest counterpart ("true"/"false"/"panic"/"na"): it must not be a panic (C03).   *)
EXTENDS KeyCodec, TraceLib
VARIABLES l, bad
vars == <<l, bad>>

Judge(e) ==
  IF e.ev = "bulk" THEN [ok |-> e.panics = 0 /\ e.noncanonical = 0, branch |-> "bulk", detail |-> <<e.cases>>]
  ELSE IF e.verify = "panic" THEN [ok |-> FALSE, branch |-> e.type \o "-decoded-object-makes-verify-panic", detail |-> <<>>]
  ELSE
  LET P == ParamsOf(e.n) IN
  IF e.type = "pk" THEN
    LET d == DecodePK(e.b, P)
        ok == IF d.ok THEN e.res = "ok" /\ e.reenc = e.b /\ EncodePK(d.h, P) = e.b ELSE e.res = "err"
    IN [ok |-> ok, branch |-> "pk-" \o d.why, detail |-> <<d.ok>>]
  ELSE IF e.type = "sk" THEN
    LET d == DecodeSK(e.b, P)
        ok == IF d.ok THEN e.res = "ok" /\ e.reenc = e.b /\ EncodeSK(d.f, d.g, d.F, P) = e.b ELSE e.res = "err"
    IN [ok |-> ok, branch |-> "sk-" \o d.why, detail |-> <<d.ok>>]
  ELSE
    LET d == DecodeSig(e.b, P)
        ok == IF d.ok THEN e.res = "ok" /\ e.reenc = e.b /\ EncodeSig(d.salt, d.body, P) = e.b ELSE e.res = "err"
    IN [ok |-> ok, branch |-> "sig-" \o d.why, detail |-> <<d.ok>>]

ASSUME TLCSet(2, Force([i \in 1..NRec |-> Judge(Rec[i])]))
Judged == TLCGet(2)
Init == l = 1 /\ bad = {}
Next == /\ l <= NRec
        /\ LET j == Judged[l] IN
             /\ PrintT(<<"VERDICT", l, IF j.ok THEN "ok" ELSE "MISMATCH", j.branch, Rec[l].tag, j.detail>>)
             /\ bad' = IF j.ok THEN bad ELSE bad \cup {l}
        /\ l' = l + 1
        /\ (IF l < NRec THEN TRUE ELSE PrintT(<<"DONE", NRec, bad'>>))
Spec == Init /\ [][Next]_vars
TraceAccepted == TLCGet("stats").diameter = NRec + 1
=====================================================================
