---------------------------- MODULE Keccak ----------------------------
(* FIPS 202: Keccak-f[1600] and SHAKE-256, evaluated by TLC.  A 64-bit lane is a 4-tuple of       *)
(* 16-bit chunks (little-endian) so that every value fits TLC's 32-bit integers; the bit          *)
(* operations are the Java-backed operators of the CommunityModules `Bitwise` module.             *)
(* MC_Keccak checks the module against known-answer vectors.                                     *)
EXTENDS Util, Bitwise
M16 == 65535
\* a lane is a 4-tuple of 16-bit chunks, little-endian: <<bits 0..15, 16..31, 32..47, 48..63>>
LXor(a,b) == <<a[1] ^^ b[1], a[2] ^^ b[2], a[3] ^^ b[3], a[4] ^^ b[4]>>
LAnd(a,b) == <<a[1] & b[1], a[2] & b[2], a[3] & b[3], a[4] & b[4]>>
LNot(a) == <<M16 - a[1], M16 - a[2], M16 - a[3], M16 - a[4]>>
\* rotate left by r (0..63)
Rotl(a, r) ==
  LET k == r \div 16   s == r % 16
      ch(i) == a[((i - k) % 4) + 1]          \* i in 0..3 : chunk index after whole-chunk rotation
      lo(i) == IF s = 0 THEN ch(i) ELSE (((ch(i) * (2^s)) % 65536))
      hi(i) == IF s = 0 THEN 0 ELSE shiftR(ch((i + 3) % 4), 16 - s)
  IN <<lo(0) | hi(0), lo(1) | hi(1), lo(2) | hi(2), lo(3) | hi(3)>>
RotOff == \* [x][y] offsets, index 5*y+x
  << 0, 1, 62, 28, 27,  36, 44, 6, 55, 20,  3, 10, 43, 25, 39,  41, 45, 15, 21, 8,  18, 2, 61, 56, 14 >>
RC == << <<1,0,0,0>>, <<32898,0,0,0>>, <<32906,0,0,32768>>, <<32768,32768,0,32768>>,
         <<32907,0,0,0>>, <<1,32768,0,0>>, <<32897,32768,0,32768>>, <<32777,0,0,32768>>,
         <<138,0,0,0>>, <<136,0,0,0>>, <<32777,32768,0,0>>, <<10,32768,0,0>>,
         <<32907,32768,0,0>>, <<139,0,0,32768>>, <<32905,0,0,32768>>, <<32771,0,0,32768>>,
         <<32770,0,0,32768>>, <<128,0,0,32768>>, <<32778,0,0,0>>, <<10,32768,0,32768>>,
         <<32897,32768,0,32768>>, <<32896,0,0,32768>>, <<1,32768,0,0>>, <<32776,32768,0,32768>> >>
\* state: function 0..24 -> lane, index x + 5y
Round(A, rc) ==
  LET C == Force([x \in 0..4 |-> LXor(A[x], LXor(A[x+5], LXor(A[x+10], LXor(A[x+15], A[x+20]))))])
      D == Force([x \in 0..4 |-> LXor(C[(x+4) % 5], Rotl(C[(x+1) % 5], 1))])
      T == Force([i \in 0..24 |-> LXor(A[i], D[i % 5])])
      \* rho+pi: B[y, 2x+3y] = rot(T[x,y])
      B == Force([j \in 0..24 |->
              LET X == j % 5   Y == j \div 5          \* B[X,Y] comes from T[x,y] with X = y, Y = (2x+3y)%5
                  y == X
                  x == CHOOSE xx \in 0..4 : (2*xx + 3*y) % 5 = Y
              IN Rotl(T[x + 5*y], RotOff[x + 5*y + 1])])
      E == Force([i \in 0..24 |-> LET x == i % 5  y == i \div 5 IN
                 LXor(B[i], LAnd(LNot(B[((x+1) % 5) + 5*y]), B[((x+2) % 5) + 5*y]))])
  IN Force([i \in 0..24 |-> IF i = 0 THEN LXor(E[0], rc) ELSE E[i]])
F1600(A) == FoldLeft(LAMBDA acc, rc: Round(acc, rc), A, RC)
Zero == Force([i \in 0..24 |-> <<0,0,0,0>>])
\* absorb: bytes (seq of 0..255) -> padded blocks of 136 bytes
Rate == 136
Pad(msg) == LET padlen == Rate - (Len(msg) % Rate)
            IN IF padlen = 1 THEN msg \o <<159>>      \* 0x1F | 0x80
               ELSE msg \o <<31>> \o [i \in 1..padlen-2 |-> 0] \o <<128>>
\* lane i of a block: bytes 8i+1..8i+8 little endian
BlockLane(blk, i) == << blk[8*i+1] + 256*blk[8*i+2], blk[8*i+3] + 256*blk[8*i+4], blk[8*i+5] + 256*blk[8*i+6], blk[8*i+7] + 256*blk[8*i+8] >>
AbsorbBlock(A, blk) == F1600(Force([i \in 0..24 |-> IF i < 17 THEN LXor(A[i], BlockLane(blk, i)) ELSE A[i]]))
Absorb(msg) == LET p == Pad(msg)  nb == Len(p) \div Rate
               IN FoldLeft(LAMBDA A, b: AbsorbBlock(A, SubSeq(p, Rate*(b-1)+1, Rate*b)), Zero, [b \in 1..nb |-> b])
LaneBytes(l) == << l[1] % 256, l[1] \div 256, l[2] % 256, l[2] \div 256, l[3] % 256, l[3] \div 256, l[4] % 256, l[4] \div 256 >>
SqueezeBlock(A) == FoldLeft(LAMBDA acc, i: acc \o LaneBytes(A[i]), <<>>, [i \in 1..17 |-> i-1])
\* output of nblocks*136 bytes
Shake256Blocks(msg, nblocks) ==
  LET st0 == Absorb(msg)
      r == FoldLeft(LAMBDA acc, b: [st |-> F1600(acc.st), out |-> acc.out \o SqueezeBlock(acc.st)], [st |-> st0, out |-> <<>>], [b \in 1..nblocks |-> b])
  IN r.out
\* the first outLen bytes of SHAKE-256(msg)
Shake256(msg, outLen) == SubSeq(Shake256Blocks(msg, (outLen + Rate - 1) \div Rate), 1, outLen)
=====================================================================
