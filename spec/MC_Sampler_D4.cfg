SPECIFICATION Spec
INVARIANT Theorems
CHECK_DEADLOCK FALSE
CONSTANT Variant = "prefix"
