SPECIFICATION Spec
INVARIANT Theorems
CHECK_DEADLOCK FALSE
