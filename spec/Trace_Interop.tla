-------------------------- MODULE Trace_Interop --------------------------
(* The cross-verdicts of C16: every exchange between falcon-rust and the reference implementation (PQClean)   *)
(* must succeed.  {"ev":"cross","kind":..,"n":..,"ok":bool}.  The signatures and keys exchanged are, in addition, *)
(* judged from their bytes by Trace_Verify (both parties' signatures against the TLA+ definition of Verify).    *)
(* Interop (Falcon.tla view): A = falcon-rust, B = the reference; Reframe relabels the header byte and           *)
(* strips / restores the zero padding; every honest message of one party is accepted by the other.             *)
EXTENDS Params, TraceLib
VARIABLES l, bad
vars == <<l, bad>>
Judge(e) == [ok |-> e.ok, branch |-> e.kind, detail |-> <<e.n>>]
ASSUME TLCSet(2, Force([i \in 1..NRec |-> Judge(Rec[i])]))
Judged == TLCGet(2)
Init == l = 1 /\ bad = {}
Next == /\ l <= NRec
        /\ LET j == Judged[l] IN
             /\ PrintT(<<"VERDICT", l, IF j.ok THEN "ok" ELSE "MISMATCH", j.branch, j.detail>>)
             /\ bad' = IF j.ok THEN bad ELSE bad \cup {l}
        /\ l' = l + 1
        /\ (IF l < NRec THEN TRUE ELSE PrintT(<<"DONE", NRec, bad'>>))
Spec == Init /\ [][Next]_vars
TraceAccepted == TLCGet("stats").diameter = NRec + 1
=====================================================================
