-------------------------- MODULE Trace_SignLoop --------------------------
(* Trace validation of the taps recorded during real `sign` calls against the SignLoop machine.       *)
(* One event per call: {"ev":"signcall","n":..,"pattern":[..],"taps":[{"k":"fill","len":40}|          *)
(*   {"k":"words","count":c}|{"k":"norm","over":bool,"forced":bool}|{"k":"compress","fitted":bool,   *)
(*   "forced":bool}],"salt_in_sig_equals_first_fill":bool,"returned":bool,"tag":..}                   *)
(* Conformance (what the property needs): the call returned.  Coverage (reported, section 8 of        *)
(* DESIGN.md): the tap sequence is a behaviour of the machine ending in `done`, with exactly the      *)
(* forced pattern's numbers of norm rejections and compression failures, one salt draw, and one seed  *)
(* draw per outer iteration.  A tap sequence that is not a behaviour of the machine is reported as    *)
(* "skeleton-deviation" in the branch field and does not by itself reject the trace.               *)
EXTENDS SignLoop, TraceLib
VARIABLES l, bad
vars == <<l, bad>>

StepTap(s, t) ==
  IF t.k = "fill" THEN (IF t.len = 40 THEN DrawSalt(s) ELSE IF t.len = 32 THEN DrawSeed(s) ELSE [s EXCEPT !.pc = "error"])
  ELSE IF t.k = "words" THEN Sample(s)
  ELSE IF t.k = "norm" THEN (IF t.over \/ t.forced THEN NormReject(s) ELSE NormAccept(s))
  ELSE IF t.k = "compress" THEN (IF t.fitted /\ ~t.forced THEN CompressOk(s) ELSE CompressFail(s))
  ELSE [s EXCEPT !.pc = "error"]

Judge(e) ==
  LET f == FoldLeft(StepTap, Start, e.taps)
      wantN == Cardinality({i \in 1..Len(e.pattern) : e.pattern[i] = "N"})
      wantC == Cardinality({i \in 1..Len(e.pattern) : e.pattern[i] = "C"})
      skeleton == f.pc = "done" /\ f.saltDraws = 1 /\ f.seeds = f.compressFails + 1
                  /\ f.normRejects >= wantN /\ f.compressFails >= wantC /\ e.salt_in_sig_equals_first_fill
  IN [ok |-> e.returned,
      branch |-> IF skeleton THEN "path-N" \o ToString(f.normRejects) \o "-C" \o ToString(f.compressFails) ELSE "skeleton-deviation",
      detail |-> <<f.pc, f.saltDraws, f.seeds, f.samples, f.normRejects, f.compressFails>>]

ASSUME TLCSet(2, Force([i \in 1..NRec |-> Judge(Rec[i])]))
Judged == TLCGet(2)
Init == l = 1 /\ bad = {}
Next == /\ l <= NRec
        /\ LET j == Judged[l] IN
             /\ PrintT(<<"VERDICT", l, IF j.ok THEN "ok" ELSE "MISMATCH", j.branch, j.detail>>)
             /\ bad' = IF j.ok THEN bad ELSE bad \cup {l}
        /\ l' = l + 1
        /\ (IF l < NRec THEN TRUE ELSE PrintT(<<"DONE", NRec, bad'>>))
Spec == Init /\ [][Next]_vars
TraceAccepted == TLCGet("stats").diameter = NRec + 1
=====================================================================
