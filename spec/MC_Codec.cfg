SPECIFICATION Spec
INVARIANT Theorems
CHECK_DEADLOCK FALSE
CONSTANTS L = 2 NMax = 2 HM = 3 Variant = "fixed" FirstBytes <- AllBytes
