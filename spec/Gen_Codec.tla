---------------------------- MODULE Gen_Codec ----------------------------
(* TLC as test generator (spec -> impl) for the compression codec.  For every byte string x of      *)
(* length L and every n <= NMax the specification's Decompress result is written out; a Rust         *)
(* replayer feeds each x to the real `decompress` (and each accepted v back through the real         *)
(* `compress`) and compares.  For L = 3 (16.7 M strings) only a per-first-byte digest is written.    *)
(* Likewise all vectors over a box with every budget for `compress`.                              *)
(* One TLC state per first byte; the state's action writes its file (16 workers in parallel).     *)
EXTENDS Codec, Json, IOUtils
CONSTANTS L, NMax, Mode   \* Mode: "full" (records) | "digest"
VARIABLE b0
Dir == IOEnv.GEN_DIR
VBox == {-12159, -300, -129, -128, -127, -1, 0, 1, 127, 128, 129, 300, 12159}
Strings(first) == {<<first>> \o t : t \in [1..(L - 1) -> 0..255]}
DigestMod == 1000003

Records(first) ==
  LET xs == SetToSeq(Strings(first))
  IN FoldLeft(LAMBDA acc, x :
       acc \o [n \in 1..NMax |-> LET d == SpecDecompress(x, n) IN [kind |-> "decompress", x |-> x, n |-> n, ok |-> d.ok, v |-> d.v]],
       <<>>, xs)

VHash(v) == FoldRange(LAMBDA a, i : (a + (v[i] + 20000) * (7 * i + 1)) % DigestMod, 0, 1, Len(v))
TailHash(x) == FoldRange(LAMBDA a, i : (a * 256 + x[i]) % DigestMod, 0, 2, Len(x))
Digest(first) ==
  [n \in 1..NMax |->
     FoldSet(LAMBDA x, acc :
               LET d == SpecDecompress(x, n)
               IN IF d.ok THEN [cnt |-> acc.cnt + 1, dig |-> (acc.dig + ((TailHash(x) * 31 + VHash(d.v)) % DigestMod)) % DigestMod]
                  ELSE acc,
             [cnt |-> 0, dig |-> 0], Strings(first))]

\* compress cases: vectors over the box (first entry fixed per state), budgets 1..L+2
VSeq == SetToSeq(VBox)
CompressRecords(k) ==
  IF k >= Len(VSeq) THEN <<>>
  ELSE LET vs == SetToSeq({w \in UNION {[1..n -> VBox] : n \in 1..NMax} : w[1] = VSeq[k + 1]})
       IN FoldLeft(LAMBDA acc, v :
            acc \o [LL \in 1..(L + 2) |-> LET c == SpecCompress(v, LL) IN [kind |-> "compress", v |-> v, L |-> LL, ok |-> c.ok, x |-> c.x]],
            <<>>, vs)

Write(first) ==
  IF Mode = "full"
  THEN ndJsonSerialize(Dir \o "/gen_" \o ToString(first) \o ".ndjson", Records(first) \o CompressRecords(first))
  ELSE ndJsonSerialize(Dir \o "/gen_" \o ToString(first) \o ".ndjson",
                       <<[kind |-> "digest", first |-> first, L |-> L, per_n |-> Digest(first)]>>)

Init == b0 = -1
Next == \/ b0 = -1 /\ \E k \in 0..15 : b0' = -2 - k
        \/ b0 <= -2 /\ \E f \in 0..255 : f % 16 = -2 - b0 /\ b0' = f
Spec == Init /\ [][Next]_b0
Written == b0 < 0 \/ Write(b0)
=====================================================================
