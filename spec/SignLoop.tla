---------------------------- MODULE SignLoop ----------------------------
(* Algorithm 10 (Sign) as falcon-rust runs it: control skeleton of one call.                         *)
(*   DrawSalt -> Hash -> [ DrawSeed -> [ Sample -> NormReject ]* -> Sample -> NormAccept ->           *)
(*                         CompressFail ]* -> ... -> CompressOk -> Done                              *)
(* The salt is drawn once, before the loops, and is not touched by retries; each outer iteration      *)
(* draws a 32-byte seed that is never used (a deviation of the code from Algorithm 10, modelled       *)
(* because it is visible in the generator tap).  Sampling is abstract here (the lattice algebra is   *)
(* in MC_Falcon): the model keeps only what the retries may and may not change.                     *)
EXTENDS Util

\* control state: [pc, salt, salts (number of salt draws), seeds, samples, normRejects, compressFails]
Start == [pc |-> "start", saltDraws |-> 0, seeds |-> 0, samples |-> 0, normRejects |-> 0, compressFails |-> 0]

DrawSalt(s)     == IF s.pc = "start" THEN [s EXCEPT !.pc = "outer", !.saltDraws = @ + 1] ELSE [s EXCEPT !.pc = "error"]
DrawSeed(s)     == IF s.pc = "outer" THEN [s EXCEPT !.pc = "inner", !.seeds = @ + 1] ELSE [s EXCEPT !.pc = "error"]
Sample(s)       == IF s.pc = "inner" THEN [s EXCEPT !.pc = "sampled", !.samples = @ + 1] ELSE [s EXCEPT !.pc = "error"]
NormReject(s)   == IF s.pc = "sampled" THEN [s EXCEPT !.pc = "inner", !.normRejects = @ + 1] ELSE [s EXCEPT !.pc = "error"]
NormAccept(s)   == IF s.pc = "sampled" THEN [s EXCEPT !.pc = "compress"] ELSE [s EXCEPT !.pc = "error"]
CompressFail(s) == IF s.pc = "compress" THEN [s EXCEPT !.pc = "outer", !.compressFails = @ + 1] ELSE [s EXCEPT !.pc = "error"]
CompressOk(s)   == IF s.pc = "compress" THEN [s EXCEPT !.pc = "done"] ELSE [s EXCEPT !.pc = "error"]

\* a retry pattern is a sequence over {"N" (norm reject), "C" (compress fail)}; the call then succeeds.
\* Expected tap sequence of a call that follows the pattern:
Patterns(depth) == UNION {[1..d -> {"N", "C"}] : d \in 0..depth}

\* the force plans that realise a pattern: k-th norm test forced to reject / k-th compression forced to fail
NormPlan(p) ==
  \* norm tests happen: one per "N", and one (accepting) before every "C" and before the final success
  FoldLeft(LAMBDA acc, x : IF x = "N" THEN Append(acc, TRUE) ELSE Append(acc, FALSE), <<>>, p) \o <<FALSE>>
CompressPlan(p) ==
  FoldLeft(LAMBDA acc, x : IF x = "C" THEN Append(acc, TRUE) ELSE acc, <<>>, p) \o <<FALSE>>
=====================================================================
