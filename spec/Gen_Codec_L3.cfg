SPECIFICATION Spec
INVARIANT Written
CHECK_DEADLOCK FALSE
CONSTANTS L = 3 NMax = 3 Mode = "digest"
