--------------------------- MODULE Trace_Codec ---------------------------
(* Trace validation of recorded compress / decompress calls (through the hook wrappers) against     *)
(* Codec.tla.  Events:                                                                             *)
(*   {"ev":"decompress","x":[bytes],"n":N,"res":"some"|"none"|"panic","v":[ints],"tag":..}          *)
(*   {"ev":"compress","v":[ints],"L":L,"res":"some"|"none"|"panic","x":[bytes],"tag":..}            *)
(*   {"ev":"bulk","cases":k,"panics":p,"noncanonical":c,"tag":..}   (native volume run, summary)     *)
(* Conformance: the recorded result equals SpecDecompress / SpecCompress recomputed by TLC from the  *)
(* arguments; compress is constrained only on its specified domain (non-empty handled, |v_i| < 12160).*)
EXTENDS Codec, TraceLib
VARIABLES l, bad
vars == <<l, bad>>

InDomain(v) == \A i \in 1..Len(v) : Abs(v[i]) < 128 * HighMax

Judge(e) ==
  IF e.ev = "decompress" THEN
    LET d == SpecDecompress(e.x, e.n)
        ok == IF d.ok THEN e.res = "some" /\ e.v = d.v ELSE e.res = "none"
    IN [ok |-> ok, branch |-> "dec-" \o d.why, detail |-> IF ok THEN <<>> ELSE <<"spec", d.ok, d.v>>]
  ELSE IF e.ev = "compress" THEN
    LET c == SpecCompress(e.v, e.L)
        ok == IF ~InDomain(e.v) THEN e.res # "panic"
              ELSE IF c.ok THEN e.res = "some" /\ e.x = c.x ELSE e.res = "none"
    IN [ok |-> ok, branch |-> IF ~InDomain(e.v) THEN "comp-outside-domain" ELSE IF c.ok THEN "comp-fits" ELSE
                              IF Len(e.v) = 0 THEN "comp-empty" ELSE "comp-too-long",
        detail |-> IF ok THEN <<>> ELSE <<"spec", c.ok, c.x>>]
  ELSE \* bulk
    [ok |-> e.panics = 0 /\ e.noncanonical = 0, branch |-> "bulk", detail |-> <<e.cases>>]

ASSUME TLCSet(2, Force([i \in 1..NRec |-> Judge(Rec[i])]))
Judged == TLCGet(2)
Init == l = 1 /\ bad = {}
Next == /\ l <= NRec
        /\ LET j == Judged[l] IN
             /\ PrintT(<<"VERDICT", l, IF j.ok THEN "ok" ELSE "MISMATCH", j.branch, Rec[l].tag, j.detail>>)
             /\ bad' = IF j.ok THEN bad ELSE bad \cup {l}
        /\ l' = l + 1
        /\ (IF l < NRec THEN TRUE ELSE PrintT(<<"DONE", NRec, bad'>>))
Spec == Init /\ [][Next]_vars
TraceAccepted == TLCGet("stats").diameter = NRec + 1
=====================================================================
