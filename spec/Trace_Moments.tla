-------------------------- MODULE Trace_Moments --------------------------
(* C10.  Two kinds of traces:                                                                                  *)
(*  (a) signatures: {"ev":"mkey","n","key","f","g","F","G","pk"} followed by {"ev":"msig","n","key","msg","sig"}.     *)
(*      TLC recomputes c = HashToPoint(salt || msg), s2 = Decompress(body), s1 = c - s2 h centred, demands the      *)
(*      verification bound, and prints the shard's PARTIAL sums: SUM ||s||^2, SUM_k <s, x^k b>^2 for both basis      *)
(*      rows, and the coordinate-wise sums of the projections (for the mean test).                              *)
(*  (b) partial sums of all shards of one key: {"ev":"partial",...}; the final HISTORY verdicts apply the windows.   *)
EXTENDS Verify, Moments, TraceLib
VARIABLES l, bad
vars == <<l, bad>>
KeyEv == Rec[1]                    \* (a): the first event of every shard is the key
IsSigTrace == Rec[1].ev = "mkey"
StatOf(e) ==
  LET P == ParamsOf(e.n)
      ds == DecodeSig(e.sig, P)
      dp == DecodePK(KeyEv.pk, P)
      d == SpecDecompress(ds.body, P.n)
      c == SpecHashToPoint(ds.salt \o e.msg, P.n)
      s2 == d.v
      s1 == LET p == RingMul(Arr(P.n, LAMBDA i : s2[i] % Q), dp.h, P.n) IN Arr(P.n, LAMBDA i : Balanced(c[i] - p[i], Q))
      fits == FitsMul(s1, KeyEv.G) /\ FitsMul(s2, KeyEv.F) /\ FitsMul(s1, KeyEv.g) /\ FitsMul(s2, KeyEv.f)
      p0 == Proj(s1, s2, KeyEv.g, KeyEv.f)
      p1 == Proj(s1, s2, KeyEv.G, KeyEv.F)
      A == NormSq(s1) + NormSq(s2)
  IN [ok |-> ds.ok /\ dp.ok /\ d.ok /\ fits /\ A <= P.bound, A |-> A, B0 |-> BSumSq(p0), B1 |-> BSumSq(p1), p0 |-> p0, p1 |-> p1]
SigStats == IF IsSigTrace THEN Force([i \in 2..NRec |-> StatOf(Rec[i])]) ELSE <<>>
ASSUME TLCSet(2, SigStats)
St == TLCGet(2)
Partial ==
  LET n == KeyEv.n
      idx == 2..NRec
  IN [n |-> n, key |-> KeyEv.key, nsig |-> NRec - 1,
      sumA |-> FoldSet(LAMBDA i, acc : BAdd(acc, BFromSmall(St[i].A)), <<>>, idx),
      sumB0 |-> FoldSet(LAMBDA i, acc : BAdd(acc, St[i].B0), <<>>, idx),
      sumB1 |-> FoldSet(LAMBDA i, acc : BAdd(acc, St[i].B1), <<>>, idx),
      vec0 |-> FoldSet(LAMBDA i, acc : VecAdd(acc, St[i].p0), [k \in 1..n |-> 0], idx),
      vec1 |-> FoldSet(LAMBDA i, acc : VecAdd(acc, St[i].p1), [k \in 1..n |-> 0], idx),
      nb0 |-> NormSq(KeyEv.f) + NormSq(KeyEv.g), nb1 |-> NormSq(KeyEv.F) + NormSq(KeyEv.G)]
\* (b) aggregation over the shards of one key
Groups == {<<Rec[i].n, Rec[i].key>> : i \in 1..NRec}
Agg(grp) ==
  LET idx == {i \in 1..NRec : <<Rec[i].n, Rec[i].key>> = grp}
      any == Rec[CHOOSE i \in idx : TRUE]
      n == grp[1]
      N == FoldSet(LAMBDA i, acc : acc + Rec[i].nsig, 0, idx)
      sumA == FoldSet(LAMBDA i, acc : BAdd(acc, Rec[i].sumA), <<>>, idx)
      sumB0 == FoldSet(LAMBDA i, acc : BAdd(acc, Rec[i].sumB0), <<>>, idx)
      sumB1 == FoldSet(LAMBDA i, acc : BAdd(acc, Rec[i].sumB1), <<>>, idx)
      v0 == FoldSet(LAMBDA i, acc : VecAdd(acc, Rec[i].vec0), [k \in 1..n |-> 0], idx)
      v1 == FoldSet(LAMBDA i, acc : VecAdd(acc, Rec[i].vec1), [k \in 1..n |-> 0], idx)
      S == BFromSmall(Sigma2x100(n))
      hundred == BFromSmall(100)
      NN == BFromSmall(N)  nn == BFromSmall(n)
      \* E sumA = N 2n sigma^2 ; E sumB = N n sigma^2 ||b||^2 ; E ||vec||^2 = N n sigma^2 ||b||^2 (mean zero)
      cA == BMul(BMul(NN, BFromSmall(2 * n)), S)
      cB0 == BMul(BMul(BMul(NN, nn), S), BFromSmall(any.nb0))
      cB1 == BMul(BMul(BMul(NN, nn), S), BFromSmall(any.nb1))
      m0 == BMul(BSumSq(v0), hundred)
      m1 == BMul(BSumSq(v1), hundred)
  IN [n |-> n, key |-> grp[2], N |-> N,
      norm |-> Within(BMul(sumA, hundred), cA, W1(n, N)),
      along_b0 |-> Within(BMul(sumB0, hundred), cB0, W2(n, N)),
      along_b1 |-> Within(BMul(sumB1, hundred), cB1, W2(n, N)),
      \* mean test, one-sided: ||SUM proj||^2 <= 2.3 N n sigma^2 ||b||^2  (chi-square with ~n degrees of freedom; a mean of 0.1 sigma per
      \* coordinate adds N/100 to the ratio)
      mean_b0 |-> BLe(BMul(m0, BFromSmall(10)), BMul(cB0, BFromSmall(23))),
      mean_b1 |-> BLe(BMul(m1, BFromSmall(10)), BMul(cB1, BFromSmall(23))),
      enough |-> N >= 40]
AggAll == IF IsSigTrace THEN <<>> ELSE LET gs == SetToSeq(Groups) IN [k \in 1..Len(gs) |-> Agg(gs[k])]
ASSUME TLCSet(3, AggAll)
Ag == TLCGet(3)
FailedOf(r) == {k \in {"norm", "along_b0", "along_b1", "mean_b0", "mean_b1", "enough"} : ~r[k]}

Init == l = 1 /\ bad = {}
Next == /\ l <= NRec
        /\ LET ok == IF IsSigTrace THEN (l = 1 \/ St[l].ok) ELSE TRUE IN
             /\ (IF ok THEN TRUE ELSE PrintT(<<"VERDICT", l, "MISMATCH", "signature-outside-bound-or-undecodable">>))
             /\ bad' = IF ok THEN bad ELSE bad \cup {l}
        /\ l' = l + 1
        /\ (IF l < NRec THEN TRUE
            ELSE /\ (IF IsSigTrace THEN PrintT(<<"PARTIAL", Partial>>)
                     ELSE \A k \in 1..Len(Ag) : PrintT(<<"HISTORY", k, IF FailedOf(Ag[k]) = {} THEN "ok" ELSE "MISMATCH",
                                                        "moments-n" \o ToString(Ag[k].n) \o "-key" \o ToString(Ag[k].key), <<Ag[k].N, FailedOf(Ag[k])>>>>))
                 /\ PrintT(<<"DONE", NRec, bad'>>))
Spec == Init /\ [][Next]_vars
TraceAccepted == TLCGet("stats").diameter = NRec + 1
=====================================================================
