----------------------------- MODULE Trace_Poly -----------------------------
(* Growth beyond the listed properties: the polynomial helpers of NTRUSolve (Falcon specification section 3.6.1, the tower of   *)
(* rings Z[x]/(x^n+1)) against their definitions.  {"ev":"polyop","op","n","a","m","res","panic"}                              *)
(*   field_norm        N(f)(x^2) = f(x) f(-x)            (formula 3.25): the product has zero odd coefficients, N = the even ones   *)
(*   lift              f(x) |-> f(x^2)                                                                                        *)
(*   galois_adjoint    f(x) |-> f(-x)                                                                                         *)
(*   hermitian_adjoint f(x) |-> f(1/x):  f*_0 = f_0, f*_i = -f_{n-i}                                                           *)
(*   reduce            a (any length) modulo x^m + 1:  out_j = SUM_k (-1)^k a_{j + k m}                                          *)
EXTENDS Zq, TraceLib
VARIABLES l, bad
vars == <<l, bad>>
Galois(f) == Arr(Len(f), LAMBDA i : IF i % 2 = 1 THEN f[i] ELSE -f[i])        \* 1-based: index i <-> x^(i-1)
Want(e) ==
  IF e.op = "field_norm" THEN LET p == NegacyclicMulZ(e.a, Galois(e.a)) IN
       [val |-> Arr(e.n \div 2, LAMBDA i : p[2 * i - 1]), side |-> \A i \in 1..(e.n \div 2) : p[2 * i] = 0]
  ELSE IF e.op = "lift" THEN [val |-> Arr(2 * e.n, LAMBDA i : IF i % 2 = 1 THEN e.a[(i + 1) \div 2] ELSE 0), side |-> TRUE]
  ELSE IF e.op = "galois_adjoint" THEN [val |-> Galois(e.a), side |-> TRUE]
  ELSE IF e.op = "hermitian_adjoint" THEN [val |-> Arr(e.n, LAMBDA i : IF i = 1 THEN e.a[1] ELSE -e.a[e.n - i + 2]), side |-> TRUE]
  ELSE [val |-> Arr(e.m, LAMBDA j : FoldRange(LAMBDA acc, k : LET idx == j + k * e.m IN
                                                IF idx <= Len(e.a) THEN acc + (IF k % 2 = 0 THEN e.a[idx] ELSE -e.a[idx]) ELSE acc,
                                              0, 0, Len(e.a) \div e.m)), side |-> TRUE]
Judge(e) == LET w == Want(e) IN [ok |-> ~e.panic /\ w.side /\ e.res = w.val, branch |-> e.op \o "-n" \o ToString(e.n), detail |-> <<Len(e.res)>>]
ASSUME TLCSet(2, Force([i \in 1..NRec |-> Judge(Rec[i])]))
Judged == TLCGet(2)
Init == l = 1 /\ bad = {}
Next == /\ l <= NRec
        /\ LET j == Judged[l] IN
             /\ (IF j.ok THEN TRUE ELSE PrintT(<<"VERDICT", l, "MISMATCH", j.branch, j.detail>>))
             /\ bad' = IF j.ok THEN bad ELSE bad \cup {l}
        /\ l' = l + 1
        /\ (IF l < NRec THEN TRUE ELSE PrintT(<<"DONE", NRec, bad'>>))
Spec == Init /\ [][Next]_vars
TraceAccepted == TLCGet("stats").diameter = NRec + 1
=====================================================================
