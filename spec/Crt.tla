------------------------------ MODULE Crt ------------------------------
(* Exact statements over Z from computations modulo NTT-friendly primes.  An integer vector v with      *)
(* |v_i| <= B is zero iff it is zero modulo P1 and modulo P2 whenever 2B < P1*P2; the magnitude bound B   *)
(* is computed from the data and is part of the checked formula, not an assumption.                    *)
EXTENDS Ntt
\* exact negacyclic product mod p through the transform (inputs are integer vectors, reduced here)
MulModP(a, b, p, g) == LET n == Len(a)  c == Ctx(p, g, n) IN CtxMul(c, ReduceSeq(a, p), ReduceSeq(b, p))
\* P1 * P2 = 226523137 < 2^31
P12 == P1 * P2
\* is x*y - z*w - k*e1 = 0 over Z[x]/(x^n+1), for integer vectors with the given maxima?
DetEquals(x, y, z, w, k) ==
  LET n == Len(x)
      bound == n * (MaxAbs(x) * MaxAbs(y) + MaxAbs(z) * MaxAbs(w)) + Abs(k)
      chk(p, g) == LET d == PolySub(MulModP(x, y, p, g), MulModP(z, w, p, g), p)
                   IN d[1] = k % p /\ \A i \in 2..n : d[i] = 0
  IN [bounded |-> 2 * bound < P12, holds |-> chk(P1, G1) /\ chk(P2, G2)]
=====================================================================
