--------------------------- MODULE Trace_Babai ---------------------------
(* Trace validation of the two public Babai reductions against Babai.tla.                                  *)
(*  {"ev":"babai","n","f","g","F","G","i32":{"ok","panic","F","G"},"big":{..},"i32_second":{..},"big_second":{..},"tag"} *)
(* Demanded: neither version panics; both return Ok (f f* + g g* is invertible in every family) and agree on the result; the result differs from   *)
(* the input by an integer-polynomial multiple of (f, g) (hence f G' - g F' = f G - g F, also checked directly);    *)
(* a second reduction of the result is the identity.                                                     *)
EXTENDS Babai, TraceLib
VARIABLES l, bad
vars == <<l, bad>>
Judge(e) ==
  LET a == e.i32  b == e.big
      nopanic == ~a.panic /\ ~b.panic
      agree == a.ok = b.ok /\ (a.ok => (a.F = b.F /\ a.G = b.G))
      inv == a.ok => DetInvariant(e.f, e.g, e.F, e.G, a.F, a.G)
      \* families without an a-priori bound on the quotient (ill-conditioned (f, g): the quotient may exceed the range of the
      \* two-prime reconstruction, which would then speak about a wrong k): the multiple is left to DetInvariant there
      kfree == e.tag \in {"ill-conditioned-fg-large-FG", "ill-conditioned-fg-small-FG"}
      mult == IF a.ok /\ ~kfree THEN MultipleOf(e.f, e.g, VecSub(e.F, a.F), VecSub(e.G, a.G)) ELSE [decided |-> FALSE, holds |-> TRUE, kmax |-> 0]
      idem == a.ok => (/\ ~e.i32_second.panic /\ e.i32_second.ok /\ e.i32_second.F = a.F /\ e.i32_second.G = a.G
                       /\ (b.ok => (~e.big_second.panic /\ e.big_second.ok /\ e.big_second.F = b.F /\ e.big_second.G = b.G)))
      \* every family the driver builds has an invertible f f* + g g*: the reduction must return (an Err is the
      \* 1000-iteration guard: non-termination, defect D9 before fix)
      facts == [returns |-> nopanic => (a.ok /\ b.ok), no_panic |-> nopanic, versions_agree |-> nopanic => agree, det_invariant |-> nopanic => inv,
                multiple_of_fg |-> nopanic => mult.holds, idempotent |-> nopanic => idem]
      failed == {k \in DOMAIN facts : ~facts[k]}
  IN [ok |-> failed = {}, branch |-> "n" \o ToString(e.n) \o "-" \o e.tag \o (IF a.ok THEN "" ELSE "-err") \o (IF mult.decided THEN "" ELSE "-kskipped"),
      detail |-> <<failed, "kmax", mult.kmax>>]
ASSUME TLCSet(2, Force([i \in 1..NRec |-> Judge(Rec[i])]))
Judged == TLCGet(2)
Init == l = 1 /\ bad = {}
Next == /\ l <= NRec
        /\ LET j == Judged[l] IN
             /\ PrintT(<<"VERDICT", l, IF j.ok THEN "ok" ELSE "MISMATCH", j.branch, j.detail>>)
             /\ bad' = IF j.ok THEN bad ELSE bad \cup {l}
        /\ l' = l + 1
        /\ (IF l < NRec THEN TRUE ELSE PrintT(<<"DONE", NRec, bad'>>))
Spec == Init /\ [][Next]_vars
TraceAccepted == TLCGet("stats").diameter = NRec + 1
=====================================================================
