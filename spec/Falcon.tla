----------------------------- MODULE Falcon -----------------------------
(* System-level model of falcon-rust: keys, per-thread signing state machines with thread-local      *)
(* entropy, issued signatures, verification calls, an adversary.  Toy ring Z_17[x]/(x^2+1) with real   *)
(* NTRU keys (f G - g F = q over Z), so that the lattice algebra of sign/verify is the real one.        *)
(*                                                                                                 *)
(* One action per linearisation point of the Rust code:                                             *)
(*   Keygen(t,seed)      falcon.rs keygen: reads nothing but the seed                                *)
(*   BeginSign, DrawSalt (thread_rng().fill_bytes(&mut r)), Hash (c = HashToPoint(r || m)),            *)
(*   DrawSeed (the unused 32-byte seed of each outer iteration), Sample (ffSampling: ANY integer z --  *)
(*   the model does not know the tree), NormTest (norm of the unreduced candidate against the bound),  *)
(*   Compress (may fail: budget), Return.                                                           *)
(*   VerifyCall          verify on an issued or forged signature.                                    *)
(* `Variant` selects the faithful model ("code") or a deliberately broken one; the broken variants     *)
(* must each yield a counterexample to the invariant they are named after (vacuity guard).           *)
EXTENDS Zq
CONSTANTS Threads, Seeds, Msgs, MaxCalls, MaxRetry, ZChoices, ZPolicy, Variant, PreKeys

TQ == 17
TN == 2
TBound == 50      \* toy floor(beta^2); attained exactly by some candidates (boundary behaviour is reachable)
ToyKeys == <<
  [f |-> <<-2, -2>>, g |-> <<-2, -1>>, F |-> <<2, -1>>, G |-> <<-3, 3>>],
  [f |-> <<-2, -1>>, g |-> <<-2, -2>>, F |-> <<3, -3>>, G |-> <<-2, 1>>],
  [f |-> <<-2, 1>>, g |-> <<-2, -2>>, F |-> <<3, -3>>, G |-> <<-2, -1>>],
  [f |-> <<-2, 2>>, g |-> <<-2, -1>>, F |-> <<2, -1>>, G |-> <<-3, -3>>],
  [f |-> <<-1, -2>>, g |-> <<-2, -2>>, F |-> <<3, -3>>, G |-> <<-1, 2>>],
  [f |-> <<-1, 2>>, g |-> <<-2, -2>>, F |-> <<3, -3>>, G |-> <<-1, -2>>],
  [f |-> <<1, -2>>, g |-> <<-2, -2>>, F |-> <<3, -3>>, G |-> <<1, 2>>],
  [f |-> <<1, 2>>, g |-> <<-2, -2>>, F |-> <<3, -3>>, G |-> <<1, -2>>] >>

\* ---- ring helpers for the toy ring
RedQ(v) == Arr(Len(v), LAMBDA i : v[i] % TQ)
\* inverse of f in Z_q[x]/(x^2+1): adj(f)/N(f), adj(f) = f0 - f1 x, N(f) = f0^2 + f1^2
Inv2(f) == LET nf == (f[1] * f[1] + f[2] * f[2]) % TQ  ni == InvM(nf, TQ)
           IN <<(f[1] * ni) % TQ, ((TQ - (f[2] % TQ)) * ni) % TQ>>
ValidKey(k) == /\ VecSub(NegacyclicMulZ(k.f, k.G), NegacyclicMulZ(k.g, k.F)) = <<TQ, 0>>
               /\ (k.f[1] * k.f[1] + k.f[2] * k.f[2]) % TQ # 0
ASSUME \A i \in 1..Len(ToyKeys) : ValidKey(ToyKeys[i])

\* the function computed by key generation: seed -> key material (deterministic)
KeyOf(seed) == LET k == ToyKeys[seed] IN [k EXCEPT !.f = k.f] @@ [h |-> NegacyclicMul(RedQ(k.g), Inv2(k.f), TQ)]
\* toy HashToPoint: a fixed function of (salt, message)
HashPoint(salt, msg) == <<(3 * salt + 5 * msg + 1) % TQ, (7 * salt + 11 * msg + 2) % TQ>>
Centre(v) == Arr(Len(v), LAMBDA i : Balanced(v[i], TQ))

\* Algorithm 16 on the toy ring: accept iff ||(c - s2 h centred, s2)||^2 <= bound   (strict in the broken variant)
SpecVerify(key, msg, salt, s2) ==
  LET c == HashPoint(salt, msg)
      s1 == Centre(PolySub(c, NegacyclicMul(RedQ(s2), key.h, TQ), TQ))
      nrm == NormSq(s1) + NormSq(s2)
  IN IF Variant = "strict-verify" THEN nrm < TBound ELSE nrm <= TBound

\* the candidate of Algorithm 10 for an arbitrary integer z = <<z0, z1>>: (s1, s2) = (c, 0) - z B, B = [[g, -f], [G, -F]]
Candidate(key, c, z) ==
  [s1 |-> VecSub(c, VecAdd(NegacyclicMulZ(z[1], key.g), NegacyclicMulZ(z[2], key.G))),
   s2 |-> VecAdd(NegacyclicMulZ(z[1], key.f), NegacyclicMulZ(z[2], key.F))]

CandNorm(cd) == NormSq(cd.s1) + NormSq(cd.s2)
\* which sampler outcomes the model explores for a given key and target.  "all": every z in ZChoices.
\* "short+long": every z whose candidate passes the signer's norm test (ffSampling returns z close to the
\* target, so these are the realistic ones), plus one z whose candidate fails it (the norm-rejection path).
ZFor(key, c) ==
  IF ZPolicy = "all" THEN ZChoices
  ELSE LET short == {z \in ZChoices : CandNorm(Candidate(key, c, z)) <= TBound}
           long == {z \in ZChoices : CandNorm(Candidate(key, c, z)) > TBound}
       IN short \cup (IF long = {} THEN {} ELSE {CHOOSE z \in long : TRUE})

\* the same as a table over the reachable targets, evaluated once at start-up and forced (TLC would otherwise
\* recompute it at every Sample step; an unforced function constructor is re-evaluated at each application)
MaxPos == 2 * MaxCalls * (MaxRetry + 2)
SaltUniverse == {100 * i + p : i \in 1..Cardinality(Threads), p \in 0..MaxPos} \cup 0..MaxPos \cup {7 * m + 3 : m \in Msgs}
CDom == {HashPoint(sl, m) : sl \in SaltUniverse, m \in Msgs}
ZTab == Force([s \in Seeds |-> LET k == KeyOf(s) IN Force([c \in CDom |-> ZFor(k, c)])])

None == [none |-> TRUE]
Idle == [pc |-> "idle", seed |-> 0, msg |-> 0, salt |-> -1, c |-> <<>>, cand |-> None, retries |-> 0, calls |-> 0]

VARIABLES keys,     \* seed -> key material, once generated
          thr,      \* per-thread signing state
          rngpos,   \* per-thread position in the thread's own entropy stream
          gpos,     \* a process-wide position: used only by the broken variant "shared-rng"
          rd,       \* per-thread register of the non-atomic read in "shared-rng"
          issued,   \* signatures returned by sign: [seed, msg, salt, s2, by, call]
          verdicts  \* the result of the latest verify call: [seed, msg, salt, s2, res, honest] (a history would only multiply states)
vars == <<keys, thr, rngpos, gpos, rd, issued, verdicts>>

TIdx(t) == CHOOSE i \in 1..Cardinality(Threads) : SetToSeq(Threads)[i] = t
\* a fresh token of thread t's stream: distinct threads draw from disjoint streams
Token(t, pos) == 100 * TIdx(t) + pos

Init == /\ keys = [s \in Seeds |-> IF PreKeys THEN KeyOf(s) ELSE None]
        /\ thr = [t \in Threads |-> Idle]
        /\ rngpos = [t \in Threads |-> 0]
        /\ gpos = 0
        /\ rd = [t \in Threads |-> -1]
        /\ issued = {}
        /\ verdicts = None

Keygen(t, seed) ==
  /\ thr[t].pc = "idle" /\ ~PreKeys
  /\ keys' = [keys EXCEPT ![seed] =
                IF Variant = "keygen-reads-rng" THEN KeyOf(((seed + rngpos[t]) % Len(ToyKeys)) + 1) ELSE KeyOf(seed)]
  /\ UNCHANGED <<thr, rngpos, gpos, rd, issued, verdicts>>

BeginSign(t, seed, msg) ==
  /\ thr[t].pc = "idle" /\ keys[seed] # None /\ thr[t].calls < MaxCalls
  /\ thr' = [thr EXCEPT ![t] = [Idle EXCEPT !.pc = "salt", !.seed = seed, !.msg = msg, !.calls = thr[t].calls + 1]]
  /\ UNCHANGED <<keys, rngpos, gpos, rd, issued, verdicts>>

\* thread-local generator: read-and-advance is one step on the thread's own state
DrawSalt(t) ==
  /\ thr[t].pc = "salt"
  /\ CASE Variant = "salt-from-msg" ->
            /\ thr' = [thr EXCEPT ![t].salt = 7 * thr[t].msg + 3, ![t].pc = "hash"]
            /\ UNCHANGED <<rngpos, gpos, rd>>
       [] Variant = "shared-rng" /\ rd[t] = -1 ->          \* non-atomic read of a shared position ...
            /\ rd' = [rd EXCEPT ![t] = gpos]
            /\ UNCHANGED <<thr, rngpos, gpos>>
       [] Variant = "shared-rng" /\ rd[t] # -1 ->          \* ... and write-back
            /\ gpos' = rd[t] + 1
            /\ thr' = [thr EXCEPT ![t].salt = rd[t], ![t].pc = "hash"]
            /\ rd' = [rd EXCEPT ![t] = -1]
            /\ UNCHANGED rngpos
       [] OTHER ->
            /\ thr' = [thr EXCEPT ![t].salt = Token(t, rngpos[t]), ![t].pc = "hash"]
            /\ rngpos' = [rngpos EXCEPT ![t] = @ + 1]
            /\ UNCHANGED <<gpos, rd>>
  /\ UNCHANGED <<keys, issued, verdicts>>

Hash(t) ==
  /\ thr[t].pc = "hash"
  /\ thr' = [thr EXCEPT ![t].c = HashPoint(thr[t].salt, thr[t].msg), ![t].pc = "seed"]
  /\ UNCHANGED <<keys, rngpos, gpos, rd, issued, verdicts>>

DrawSeed(t) ==
  /\ thr[t].pc = "seed"
  /\ thr' = [thr EXCEPT ![t].pc = "sample"]
  /\ rngpos' = [rngpos EXCEPT ![t] = @ + 1]
  /\ UNCHANGED <<keys, gpos, rd, issued, verdicts>>

Sample(t, z) ==
  /\ thr[t].pc = "sample"
  /\ thr' = [thr EXCEPT ![t].cand = Candidate(keys[thr[t].seed], thr[t].c, z), ![t].pc = "norm"]
  /\ UNCHANGED <<keys, rngpos, gpos, rd, issued, verdicts>>

\* the signer's test is on the unreduced candidate; `>` rejects, i.e. norm <= bound is kept
NormTest(t) ==
  /\ thr[t].pc = "norm"
  /\ LET nrm == NormSq(thr[t].cand.s1) + NormSq(thr[t].cand.s2) IN
       IF nrm > TBound
       THEN /\ thr[t].retries < MaxRetry
            /\ thr' = [thr EXCEPT ![t].pc = "sample", ![t].retries = @ + 1]
       ELSE thr' = [thr EXCEPT ![t].pc = "compress"]
  /\ UNCHANGED <<keys, rngpos, gpos, rd, issued, verdicts>>

CompressFail(t) ==
  /\ thr[t].pc = "compress" /\ thr[t].retries < MaxRetry
  /\ thr' = [thr EXCEPT ![t].pc = "seed", ![t].retries = @ + 1,
                        ![t].salt = IF Variant = "salt-redrawn-on-retry" THEN Token(t, rngpos[t]) ELSE @]
  /\ rngpos' = IF Variant = "salt-redrawn-on-retry" THEN [rngpos EXCEPT ![t] = @ + 1] ELSE rngpos
  /\ UNCHANGED <<keys, gpos, rd, issued, verdicts>>

Return(t) ==
  /\ thr[t].pc = "compress"
  /\ issued' = issued \cup {[seed |-> thr[t].seed, msg |-> thr[t].msg, salt |-> thr[t].salt, s2 |-> thr[t].cand.s2,
                             by |-> t, call |-> thr[t].calls]}
  /\ thr' = [thr EXCEPT ![t] = [Idle EXCEPT !.calls = thr[t].calls]]
  /\ UNCHANGED <<keys, rngpos, gpos, rd, verdicts>>

\* verify on an issued signature, or on an adversarial modification of one
Forgeries(s) == {s} \cup {[s EXCEPT !.s2 = <<s.s2[1] + d, s.s2[2]>>] : d \in {-1, 1}}
                    \cup {[s EXCEPT !.msg = m] : m \in Msgs} \cup {[s EXCEPT !.salt = s.salt + 1]}
VerifyCall(t) ==
  /\ thr[t].pc = "idle"
  /\ \E s \in issued : \E x \in Forgeries(s) :
       verdicts' = [seed |-> x.seed, msg |-> x.msg, salt |-> x.salt, s2 |-> x.s2,
                    res |-> SpecVerify(keys[x.seed], x.msg, x.salt, x.s2), honest |-> x = s]
  /\ UNCHANGED <<keys, thr, rngpos, gpos, rd, issued>>

Next == \E t \in Threads :
          \/ \E s \in Seeds : Keygen(t, s)
          \/ \E s \in Seeds, m \in Msgs : BeginSign(t, s, m)
          \/ DrawSalt(t) \/ Hash(t) \/ DrawSeed(t)
          \/ (thr[t].pc = "sample" /\ \E z \in ZTab[thr[t].seed][thr[t].c] : Sample(t, z))
          \/ NormTest(t) \/ CompressFail(t) \/ Return(t)
          \/ VerifyCall(t)
Spec == Init /\ [][Next]_vars

\* ------------------------------------------------------------------ properties
\* C01: every honestly produced signature verifies under the matching key
Completeness == \A s \in issued : SpecVerify(keys[s.seed], s.msg, s.salt, s.s2)
\* the algebraic half of it: every candidate, for every z, lies in the coset c + Lambda(h)
CosetInvariant ==
  \A t \in Threads : thr[t].cand # None =>
     LET k == keys[thr[t].seed] IN
       PolyAdd(RedQ(thr[t].cand.s1), NegacyclicMul(RedQ(thr[t].cand.s2), k.h, TQ), TQ) = thr[t].c
\* C08: no two issued signatures (any thread, key, message) share a salt
SaltsFresh == \A a, b \in issued : a.salt = b.salt => a = b
\* C08: the salt of a call is drawn once, before the loops, and survives retries
SaltDrawnOnce == [][\A t \in Threads : (thr[t].pc \in {"hash", "seed", "sample", "norm", "compress"} /\ thr'[t].pc # "idle")
                                        => thr'[t].salt = thr[t].salt]_vars
\* C15: key generation is a function of the seed, under every interleaving with signing
KeygenFunctional == \A s \in Seeds : keys[s] # None => keys[s] = KeyOf(s)
KeysStable == [][\A s \in Seeds : keys[s] # None => keys'[s] = keys[s]]_vars
\* distinct seeds give distinct keys (on the toy table)
SeedSensitive == \A a, b \in Seeds : (keys[a] # None /\ keys[b] # None /\ a # b) => keys[a] # keys[b]
\* C02 (system view): a verdict on an honest signature is TRUE; the only accepted forgeries are valid coset points
VerdictsSound == verdicts # None => (verdicts.honest => verdicts.res)
\* vacuity guards (each must be VIOLATED in the faithful model: the interesting states are reachable)
NeverIssued == issued = {}
NeverAtBound == \A s \in issued : LET c == HashPoint(s.salt, s.msg)
                                      s1 == Centre(PolySub(c, NegacyclicMul(RedQ(s.s2), keys[s.seed].h, TQ), TQ))
                                  IN NormSq(s1) + NormSq(s.s2) # TBound
NeverRetried == \A t \in Threads : thr[t].retries = 0
NeverForgeryAccepted == verdicts # None => (verdicts.res => verdicts.honest)
TypeOK == /\ \A t \in Threads : thr[t].pc \in {"idle", "salt", "hash", "seed", "sample", "norm", "compress"}
          /\ \A t \in Threads : rngpos[t] \in 0..(2 * MaxCalls * (MaxRetry + 2))
=====================================================================
