----------------------------- MODULE Moments -----------------------------
(* Integer statistics of signature vectors against the secret basis (C10).  For a signature (s1, s2) of a key      *)
(* with basis rows (g, -f), (G, -F) and all their rotations x^k:                                                 *)
(*    <s, x^k (g,-f)> = coefficient k of  s1 * adj(g) - s2 * adj(f)          (adj: the Hermitian adjoint over Z)      *)
(* and likewise for (G, -F).  If s is a spherical discrete Gaussian of standard deviation sigma on its coset then,  *)
(* for every unit direction u,  E <s,u> = 0  and  E <s,u>^2 = sigma^2; in particular                               *)
(*    E ||s||^2 = 2 n sigma^2,   E SUM_k <s, x^k b>^2 = n sigma^2 ||b||^2   for b = (g,-f) and b = (G,-F).            *)
(* The windows below are 6.5 standard deviations of the estimators (for the projection sums with a factor 3 for     *)
(* the correlation between rotations) plus a few per mille for discreteness: false alarm < 1e-9 per run.          *)
EXTENDS Zq, BigNat
\* sigma^2 * 100 for the two parameter sets
Sigma2x100(n) == IF n = 512 THEN 2746863 ELSE 2835475
AdjZ(a) == LET n == Len(a) IN Arr(n, LAMBDA i : IF i = 1 THEN a[1] ELSE -a[n - i + 2])
\* projections of (s1, s2) on the n rotations of the basis row (p, -r)
Proj(s1, s2, p, r) == VecSub(NegacyclicMulZ(s1, AdjZ(p)), NegacyclicMulZ(s2, AdjZ(r)))
\* products stay below 2^31 ?
FitsMul(a, b) == Len(a) * MaxAbs(a) < 2147483647 \div (MaxAbs(b) + 1)
BSumSq(v) == FoldLeft(LAMBDA acc, x : BAdd(acc, BMul(BFromSmall(Abs(x)), BFromSmall(Abs(x)))), <<>>, v)
\* integer square root of a value below 2^31
ISqrt(x) == CHOOSE r \in 0..46341 : r * r <= x /\ (r + 1) * (r + 1) > x
\* per-mille windows
W1(n, N) == ((6500 \div ISqrt(n * N)) + 1) + 3
W2(n, N) == ((19500 * 1415) \div (1000 * ISqrt(n * N))) + 1 + 10
\* lo <= val <= hi for val * 1000 against centre * (1000 -/+ w)
Within(val, centre, w) ==
  LET v == BMul(val, BFromSmall(1000))
  IN BLe(BMul(centre, BFromSmall(1000 - w)), v) /\ BLe(v, BMul(centre, BFromSmall(1000 + w)))
=====================================================================
