-------------------------- MODULE Gen_SignPaths --------------------------
(* TLC as generator (spec -> impl): every retry pattern of the sign skeleton up to Depth, with the    *)
(* fault plan that forces it.  The Rust replayer installs the plan through the cfg-guarded taps,      *)
(* calls the real `sign`, records the tap sequence and the returned signature.                      *)
EXTENDS SignLoop, Json, IOUtils
CONSTANT Depth
PatternSeq == SetToSeq(Patterns(Depth))
ASSUME ndJsonSerialize(IOEnv.GEN_DIR \o "/signpaths.ndjson",
         [i \in 1..Len(PatternSeq) |->
            [pattern |-> PatternSeq[i], norm_plan |-> NormPlan(PatternSeq[i]), compress_plan |-> CompressPlan(PatternSeq[i])]])
ASSUME PrintT(<<"GENERATED", Len(PatternSeq)>>)
VARIABLE x
Init == x = 0
Next == UNCHANGED x
Spec == Init /\ [][Next]_x
=====================================================================
