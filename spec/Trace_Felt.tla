--------------------------- MODULE Trace_Felt ---------------------------
(* Trace validation of the real Z_q element operations (hook wrappers) against Zq.tla.                 *)
(*  {"ev":"row","op":"add"|"sub"|"mul","b":b,"sum","wsum","max","min","panics"}: digest of the row       *)
(*      r_a = op(a,b), a = 0..q-1, computed by the driver from the code's outputs:                       *)
(*      sum = SUM r_a mod M, wsum = SUM (a+1) r_a mod M, max, min.  TLC recomputes the four numbers from  *)
(*      the mathematical definition; one wrong entry changes sum (|delta| < q < M).                     *)
(*  {"ev":"table","op":"new"|"neg"|"inv"|"balanced"|"value","first":v0,"vals":[..]}: full unary tables,   *)
(*      compared entry by entry (a panic is recorded as the sentinel -99999 and never conforms).                                       *)
(*  {"ev":"batchinv","v":[..],"res":[..]}: batch inversion, zeros map to zero.                           *)
(*  {"ev":"opseq","op","xs","ys","res"}: a sequence of calls (many repeats over few values) in call order.  *)
(*  {"ev":"chain","rows":[[a,b,c,d,val,balinv,zero,eq1,eq2],..]}: t = (a+b)*c-d kept inside the field type. *)
EXTENDS Zq, TraceLib
FQ == 12289
DM == 1000003
VARIABLES l, bad
vars == <<l, bad>>

\* "add_assign" etc. are the compound-assignment impls, "multiply" the const fn, "div" = a * b^-1 (b # 0)
Op(op, a, b) == IF op \in {"add", "add_assign"} THEN AddM(a, b, FQ) ELSE IF op \in {"sub", "sub_assign"} THEN SubM(a, b, FQ)
                ELSE IF op = "div" THEN MulM(a, InvM(b, FQ), FQ) ELSE MulM(a, b, FQ)
\* one row of a chain event: <<a, b, c, d, value, balanced inverse, is_zero, eq1, eq2>> for t = (a + b) * c - d
ChainOk(r) ==
  LET t == SubM(MulM(AddM(r[1], r[2], FQ), r[3], FQ), r[4], FQ)
  IN r[5] = t /\ r[6] = Balanced(InvM(t, FQ), FQ) /\ r[7] = (IF t = 0 THEN 1 ELSE 0) /\ r[8] = 1 /\ r[9] = 1
RowDigest(op, b) ==
  FoldRange(LAMBDA acc, a : LET r == Op(op, a, b) IN
              [sum |-> (acc.sum + r) % DM, wsum |-> (acc.wsum + (((a + 1) * r) % DM)) % DM,
               max |-> IF r > acc.max THEN r ELSE acc.max, min |-> IF r < acc.min THEN r ELSE acc.min],
            [sum |-> 0, wsum |-> 0, max |-> -1, min |-> FQ], 0, FQ - 1)
Unary(op, v) == IF op = "new" THEN v % FQ ELSE IF op = "neg" THEN NegM(v, FQ) ELSE IF op = "inv" THEN InvM(v, FQ)
                ELSE IF op = "balanced" THEN Balanced(v, FQ) ELSE v % FQ
Judge(e) ==
  IF e.ev = "row" THEN
    LET d == RowDigest(e.op, e.b)
        ok == e.panics = 0 /\ e.sum = d.sum /\ e.wsum = d.wsum /\ e.max = d.max /\ e.min = d.min /\ d.max < FQ /\ d.min >= 0
    IN [ok |-> ok, branch |-> "row-" \o e.op, detail |-> IF ok THEN <<>> ELSE <<e.b, d>>]
  ELSE IF e.ev = "table" THEN
    LET badidx == {i \in 1..Len(e.vals) : e.vals[i] # Unary(e.op, e.first + i - 1)}
    IN [ok |-> badidx = {}, branch |-> "table-" \o e.op,
        detail |-> IF badidx = {} THEN <<Len(e.vals)>> ELSE <<"first-bad-input", e.first + Min(badidx) - 1, "code", e.vals[Min(badidx)],
                                                             "spec", Unary(e.op, e.first + Min(badidx) - 1), "count", Cardinality(badidx)>>]
  ELSE IF e.ev = "chain" THEN
    LET badidx == {i \in 1..Len(e.rows) : ~ChainOk(e.rows[i])}
    IN [ok |-> badidx = {}, branch |-> "chain", detail |-> IF badidx = {} THEN <<Len(e.rows)>> ELSE <<"first-bad-row", e.rows[Min(badidx)], "count", Cardinality(badidx)>>]
  ELSE IF e.ev = "opseq" THEN
    \* a sequence of calls in call order: every result is judged on its own (history must not matter)
    LET want(i) == IF e.op \in {"add", "sub", "mul"} THEN Op(e.op, e.xs[i], e.ys[i]) ELSE Unary(e.op, e.xs[i])
        badidx == {i \in 1..Len(e.xs) : e.res[i] # want(i)}
    IN [ok |-> badidx = {}, branch |-> "opseq-" \o e.op, detail |-> IF badidx = {} THEN <<Len(e.xs)>> ELSE <<"first-bad-call", Min(badidx), e.xs[Min(badidx)], "code", e.res[Min(badidx)], "spec", want(Min(badidx))>>]
  ELSE
    LET ok == Len(e.res) = Len(e.v) /\ \A i \in 1..Len(e.v) : e.res[i] = InvM(e.v[i], FQ)
    IN [ok |-> ok, branch |-> "batchinv", detail |-> <<Len(e.v)>>]

ASSUME TLCSet(2, Force([i \in 1..NRec |-> Judge(Rec[i])]))
Judged == TLCGet(2)
Init == l = 1 /\ bad = {}
Next == /\ l <= NRec
        /\ LET j == Judged[l] IN
             /\ PrintT(<<"VERDICT", l, IF j.ok THEN "ok" ELSE "MISMATCH", j.branch, j.detail>>)
             /\ bad' = IF j.ok THEN bad ELSE bad \cup {l}
        /\ l' = l + 1
        /\ (IF l < NRec THEN TRUE ELSE PrintT(<<"DONE", NRec, bad'>>))
Spec == Init /\ [][Next]_vars
TraceAccepted == TLCGet("stats").diameter = NRec + 1
=====================================================================
