SPECIFICATION Spec
INVARIANT Theorems
CHECK_DEADLOCK FALSE
CONSTANTS L = 3 NMax = 3 HM = 8 Variant = "prefix-D8" FirstBytes <- FewBytes
