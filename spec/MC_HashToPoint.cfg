SPECIFICATION Spec
INVARIANT Theorems
CHECK_DEADLOCK FALSE
CONSTANTS Chunks = 6 N = 4
