---------------------------- MODULE Trace_Solve ----------------------------
(* Growth beyond the listed properties: NTRUSolve (Algorithm 6) at every level of its field-norm tower.             *)
(*  {"ev":"solve","top","level","n","f","g","status":"some"|"none"|"panic","F","G"}  numbers: [neg, mag (15-bit limbs)]     *)
(* For each level's inputs (f_i, g_i) the real recursive solver returned (F_i, G_i); demanded: no panic, and when it     *)
(* answers:  f_i G_i - g_i F_i = q  over Z[x]/(x^{n_i}+1), evaluated exactly on signed big integers.  Whether the answer is *)
(* size-reduced (||(F,G)||_inf <= q (n+1) (||(f,g)||_inf + 1)) is REPORTED in the detail field only: at deep levels the   *)
(* big-integer Babai loop sometimes stops early (observed: 354-bit answers for 50-bit inputs); the equation still holds   *)
(* and key generation copes by re-sampling, so no listed property is affected.                                     *)
(*  {"ev":"karatsuba","n","a","b","status","prod"}: the big-integer Karatsuba product (lift step) = the schoolbook product.   *)
(* "none" is legitimate only if the level-1 resultants are not coprime (checked at the bottom level n = 1: gcd # 1).   *)
EXTENDS BigNat, TraceLib
VARIABLES l, bad
vars == <<l, bad>>
SZero == [neg |-> FALSE, mag |-> <<>>]
SNorm(a) == [neg |-> a.neg /\ a.mag # <<>>, mag |-> a.mag]
SAdd(a, b) == IF a.neg = b.neg THEN SNorm([neg |-> a.neg, mag |-> BAdd(a.mag, b.mag)])
              ELSE IF BLe(b.mag, a.mag) THEN SNorm([neg |-> a.neg, mag |-> BSub(a.mag, b.mag)])
              ELSE SNorm([neg |-> b.neg, mag |-> BSub(b.mag, a.mag)])
SNeg(a) == SNorm([neg |-> ~a.neg, mag |-> a.mag])
SMul(a, b) == SNorm([neg |-> a.neg # b.neg, mag |-> BMul(a.mag, b.mag)])
\* negacyclic product of signed big-integer vectors
SPolyMul(a, b) ==
  LET n == Len(a) IN
  Arr(n, LAMBDA k : FoldRange(LAMBDA acc, i : IF i <= k THEN SAdd(acc, SMul(a[i], b[k - i + 1])) ELSE SAdd(acc, SNeg(SMul(a[i], b[n + k - i + 1]))), SZero, 1, n))
SPolySub(a, b) == Arr(Len(a), LAMBDA i : SAdd(a[i], SNeg(b[i])))
QBig == [neg |-> FALSE, mag |-> BFromSmall(12289)]
MaxMag(v) == FoldLeft(LAMBDA acc, x : IF BLt(acc, x.mag) THEN x.mag ELSE acc, <<>>, v)
\* gcd of two naturals (Euclid by repeated remainder; bottom level only)
BGcd(a, b) == LET r == FoldRange(LAMBDA st, k : IF st.b = <<>> THEN st ELSE [a |-> st.b, b |-> BDivMod(st.a, st.b).r], [a |-> a, b |-> b], 1, 3000) IN r.a
\* full (unreduced) product of two signed big-integer vectors of length n: length 2n - 1
SFullMul(a, b) ==
  LET n == Len(a) IN
  Arr(2 * n - 1, LAMBDA k : FoldRange(LAMBDA acc, i : IF k - i + 1 >= 1 /\ k - i + 1 <= n THEN SAdd(acc, SMul(a[i], b[k - i + 1])) ELSE acc, SZero, 1, n))
Judge(e) ==
  IF e.ev = "karatsuba" THEN
    [ok |-> e.status = "some" /\ e.prod = SFullMul(e.a, e.b), branch |-> "karatsuba-n" \o ToString(e.n), detail |-> <<Len(e.prod)>>]
  ELSE IF e.status = "panic" THEN [ok |-> FALSE, branch |-> "panic", detail |-> <<e.n>>]
  ELSE IF e.status = "none" THEN
    \* only judged at the bottom of the tower, where the reason is decidable: the resultants must not be coprime
    [ok |-> e.n > 1 \/ BGcd(e.f[1].mag, e.g[1].mag) # <<1>>, branch |-> "none-n" \o ToString(e.n), detail |-> <<>>]
  ELSE
    LET d == SPolySub(SPolyMul(e.f, e.G), SPolyMul(e.g, e.F))
        eq == d[1] = QBig /\ \A i \in 2..e.n : d[i] = SZero
        small == BLe(MaxMag(e.F \o e.G), BMul(BFromSmall(12289), BMul(BFromSmall(e.n + 1), BAdd(MaxMag(e.f \o e.g), <<1>>))))
    IN [ok |-> eq, branch |-> "solved-n" \o ToString(e.n), detail |-> <<eq, small, BBitLen(MaxMag(e.f \o e.g)), BBitLen(MaxMag(e.F \o e.G))>>]
ASSUME TLCSet(2, Force([i \in 1..NRec |-> Judge(Rec[i])]))
Judged == TLCGet(2)
Init == l = 1 /\ bad = {}
Next == /\ l <= NRec
        /\ LET j == Judged[l] IN
             /\ PrintT(<<"VERDICT", l, IF j.ok THEN "ok" ELSE "MISMATCH", j.branch, j.detail>>)
             /\ bad' = IF j.ok THEN bad ELSE bad \cup {l}
        /\ l' = l + 1
        /\ (IF l < NRec THEN TRUE ELSE PrintT(<<"DONE", NRec, bad'>>))
Spec == Init /\ [][Next]_vars
TraceAccepted == TLCGet("stats").diameter = NRec + 1
=====================================================================
