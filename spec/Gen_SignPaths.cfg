SPECIFICATION Spec
CHECK_DEADLOCK FALSE
CONSTANT Depth = 3
