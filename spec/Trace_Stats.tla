--------------------------- MODULE Trace_Stats ---------------------------
(* The distribution part of C09: histograms of the real sampler's output over uniform bytes, judged by TLC   *)
(* with Pearson's chi-square test against the discrete Gaussian (Stats.tla).                              *)
(*  {"ev":"hist","pair":i (0-based index into Stats!GaussP),"lo":floor(mu)-20,"hist":[42 counts],"outside":k,"n":N}   *)
EXTENDS Stats, TraceLib
VARIABLES l, bad
vars == <<l, bad>>
Judge(e) ==
  LET Pr == GaussP[e.pair + 1]
      b == Binned(e.hist, Pr, e.n)
      df == Len(b.obs) - 1
      x16 == Chi2x16(b.obs, b.exp)
      total == FoldLeft(LAMBDA a, x : a + x, 0, e.hist) + e.outside
      \* mass outside the 42 bins is below 1e-30: any such observation is a failure
      ok == total = e.n /\ e.outside = 0 /\ df >= 4 /\ x16 <= Chi2Crit16[df]
  IN [ok |-> ok, branch |-> e.tag, detail |-> <<"chi2x16", x16, "crit", Chi2Crit16[df], "df", df>>]
ASSUME TLCSet(2, Force([i \in 1..NRec |-> Judge(Rec[i])]))
Judged == TLCGet(2)
Init == l = 1 /\ bad = {}
Next == /\ l <= NRec
        /\ LET j == Judged[l] IN
             /\ PrintT(<<"VERDICT", l, IF j.ok THEN "ok" ELSE "MISMATCH", j.branch, j.detail>>)
             /\ bad' = IF j.ok THEN bad ELSE bad \cup {l}
        /\ l' = l + 1
        /\ (IF l < NRec THEN TRUE ELSE PrintT(<<"DONE", NRec, bad'>>))
Spec == Init /\ [][Next]_vars
TraceAccepted == TLCGet("stats").diameter = NRec + 1
=====================================================================
