SPECIFICATION Spec
CHECK_DEADLOCK FALSE
CONSTANTS
  Threads = {t1, t2, t3}
  Seeds = {1}
  Msgs = {0}
  MaxCalls = 1
  MaxRetry = 0
  ZChoices <- ZWide
  ZPolicy = "short+long"
  Variant = "code"
  PreKeys = FALSE
INVARIANTS TypeOK Completeness CosetInvariant SaltsFresh KeygenFunctional SeedSensitive VerdictsSound
PROPERTIES SaltDrawnOnce KeysStable
