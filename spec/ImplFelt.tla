---------------------------- MODULE ImplFelt ----------------------------
(* An implementation-shaped model of falcon-rust's Z_q element type (falcon_field.rs): the code's     *)
(* branch-free tricks with Rust's integer types made explicit.  u32 wrapping arithmetic is arithmetic   *)
(* modulo 2^32; residues are represented by integers in (-2^31, 2^31) (TLC integers are 32-bit), which  *)
(* is faithful as long as every intermediate value stays in that window -- `InWindow` is asserted for   *)
(* each of them (an out-of-window value would be reported as the outcome "model-overflow").            *)
(* MC_Felt compares every operation with the mathematical definition (Zq.tla) on ALL operands.        *)
EXTENDS Zq
FQ == 12289

\* Rust's `%` on signed integers truncates toward zero
RustRem(v, m) == IF v >= 0 THEN v % m ELSE -((-v) % m)
\* Felt::new(value: i16): reduced = (value as i32) % Q; canonical = reduced + Q * (reduced < 0)
New(v) == LET reduced == RustRem(v, FQ) IN reduced + FQ * (IF reduced < 0 THEN 1 ELSE 0)
\* the pre-fix version (commit 49e03c6), kept for the defect-reproducing config: 16-bit sign trick
NewPreFix(v) ==
  LET gtz == IF v >= 0 THEN 1 ELSE 0
      sgn == gtz - (1 - gtz)
      prod == sgn * v                     \* i16 multiplication: overflows for v = -32768
      reduced == sgn * (prod % FQ)
  IN IF prod > 32767 THEN -1 (* panic: attempt to multiply with overflow *) ELSE reduced + FQ * (1 - gtz)

\* Add: (s,_) = a.overflowing_add(b); (d,n) = s.overflowing_sub(Q); (r,_) = d.overflowing_add(Q * n)
Add(a, b) == LET s == a + b
                 n == s < FQ            \* borrow of the wrapping subtraction
                 d == s - FQ            \* representative of (s - Q) mod 2^32
             IN d + FQ * (IF n THEN 1 ELSE 0)
Neg(a) == (FQ - a) * (IF a # 0 THEN 1 ELSE 0)
Sub(a, b) == Add(a, Neg(b))
Mul(a, b) == (a * b) % FQ               \* u32 product: a*b < 2^28, no wrap
Balanced0(a) == a - FQ * (IF a > (FQ \div 2) THEN 1 ELSE 0)
\* inverse_or_zero: the addition chain for q - 2 = 12287 of falcon_field.rs
Inv(a) ==
  LET two == Mul(a, a)  three == Mul(two, a)  six == Mul(three, three)  twelve == Mul(six, six)
      fifteen == Mul(twelve, three)  thirty == Mul(fifteen, fifteen)  sixty == Mul(thirty, thirty)
      sixty3 == Mul(sixty, three)
      sq == Mul(sixty3, sixty3)  qu == Mul(sq, sq)  oc == Mul(qu, qu)  hx == Mul(oc, oc)  tt == Mul(hx, hx)  sf == Mul(tt, tt)
      allones == Mul(sf, sixty3)
      e12 == Mul(allones, a)  e13 == Mul(e12, e12)
  IN Mul(e13, allones)
\* batch inversion (inverse.rs): prefix products skipping zeros, one inversion, backward sweep
BatchInv(v) ==
  LET n == Len(v)
      fw == FoldRange(LAMBDA st, i : IF v[i] # 0 THEN [rp |-> Append(st.rp, st.acc), acc |-> Mul(v[i], st.acc)]
                                     ELSE [rp |-> Append(st.rp, 0), acc |-> st.acc],
                      [rp |-> <<>>, acc |-> 1], 1, n)
      bw == FoldRange(LAMBDA st, k : LET i == n + 1 - k IN
                        IF v[i] # 0 THEN [rp |-> [st.rp EXCEPT ![i] = Mul(st.rp[i], st.inv)], inv |-> Mul(st.inv, v[i])]
                        ELSE st,
                      [rp |-> fw.rp, inv |-> Inv(fw.acc)], 1, n)
  IN bw.rp
=====================================================================
