SPECIFICATION Spec
INVARIANT Theorems
CONSTANT MaxLogN = 10
CHECK_DEADLOCK FALSE
