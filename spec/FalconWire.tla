---------------------------- MODULE FalconWire ----------------------------
(* System-level model of the byte interfaces (C05, C06, C16): two parties exchange public keys and signatures      *)
(* over a wire that an adversary may tamper with.                                                                *)
(*   party A = falcon-rust: signatures have the header 0 10 1 logn and are zero-padded to a fixed length;            *)
(*   party B = the reference implementation: header 0 01 1 logn, no padding (the compressed body ends in a 1 bit).     *)
(* Both use the same public-key encoding.  Reframe converts a signature between the two conventions.                *)
(* Toy format (as MC_KeyCodec): n = 2, q = 17, 8-bit public-key fields, 1-byte salt, 3-byte padded body.             *)
(* Actions: Export by A or B (encode an object), Tamper (overwrite one byte), Reframe, Import by A or B (decode).     *)
(* Invariants:                                                                                                 *)
(*   RoundTrip : an untampered item imports, by the party whose convention it is in, to the object it was made from   *)
(*   Strict    : whatever a party accepts re-encodes (by that party) to exactly the bytes it was given               *)
(*   Interop   : an untampered A-item, reframed, is accepted by B as the same object, and vice versa                 *)
(*   Reframing : Reframe(B -> A) after Reframe(A -> B) is the identity on untampered A-items                          *)
EXTENDS KeyCodec
CONSTANTS S2Box, Salts, MaxItems

ToyA == [n |-> 2, logn |-> 1, q |-> 17, wpk |-> 8, wfg |-> 2, wF |-> 4, pklen |-> 3, sklen |-> 3, siglen |-> 5, bodylen |-> 3, sighdr |-> 81]
HdrB == 49          \* 0 01 1 0001
PKs == [1..2 -> {0, 5, 16}]
Sigs == [salt : Salts, s2 : [1..2 -> S2Box]]

\* A's encoding: fixed length; B's encoding: minimal length
EncSigA(s) == LET c == SpecCompress(s.s2, ToyA.bodylen) IN <<ToyA.sighdr, s.salt>> \o c.x
StripZeros(b) == LET nz == {i \in 1..Len(b) : b[i] # 0} IN IF nz = {} THEN <<>> ELSE SubSeq(b, 1, Max(nz))
EncSigB(s) == <<HdrB, s.salt>> \o StripZeros(SpecCompress(s.s2, ToyA.bodylen).x)
\* decoders: [ok, obj]
DecSigA(b) == IF Len(b) # ToyA.siglen \/ b[1] # ToyA.sighdr THEN [ok |-> FALSE, obj |-> <<>>]
              ELSE LET d == SpecDecompress(SubSeq(b, 3, 5), 2) IN
                   IF d.ok THEN [ok |-> TRUE, obj |-> [salt |-> b[2], s2 |-> d.v]] ELSE [ok |-> FALSE, obj |-> <<>>]
\* B: the body must be consumed exactly: decode the zero-padded body, and require that the given body is its minimal form
DecSigB(b) == IF Len(b) < 3 \/ Len(b) > ToyA.siglen \/ b[1] # HdrB THEN [ok |-> FALSE, obj |-> <<>>]
              ELSE LET body == SubSeq(b, 3, Len(b))
                       padded == body \o [i \in 1..(ToyA.bodylen - Len(body)) |-> 0]
                       d == SpecDecompress(padded, 2)
                   IN IF d.ok /\ StripZeros(padded) = body THEN [ok |-> TRUE, obj |-> [salt |-> b[2], s2 |-> d.v]] ELSE [ok |-> FALSE, obj |-> <<>>]
ReframeAB(b) == IF Len(b) = 0 THEN b ELSE <<HdrB>> \o StripZeros(SubSeq(b, 2, Len(b)))      \* note: keeps the salt byte even if it is 0
ReframeBA(b) == IF Len(b) = 0 THEN b ELSE <<ToyA.sighdr>> \o SubSeq(b, 2, Len(b)) \o [i \in 1..(ToyA.siglen - Len(b)) |-> 0]

VARIABLE wire    \* set of items [kind, conv ("A"|"B"|"pk"), bytes, origin (the object it was made from), tampered]
Init == wire = {}
ExportPK == \E h \in PKs : wire' = wire \cup {[kind |-> "pk", conv |-> "pk", bytes |-> EncodePK(h, ToyA), origin |-> h, tampered |-> FALSE]}
ExportSig == \E s \in Sigs : \E cv \in {"A", "B"} :
               wire' = wire \cup {[kind |-> "sig", conv |-> cv, bytes |-> IF cv = "A" THEN EncSigA(s) ELSE EncSigB(s), origin |-> s, tampered |-> FALSE]}
Tamper == \E it \in wire : \E i \in 1..Len(it.bytes) : \E v \in {0, 1, 17, 128, 255} :
            v # it.bytes[i] /\ wire' = wire \cup {[it EXCEPT !.bytes = [it.bytes EXCEPT ![i] = v], !.tampered = TRUE]}
Reframe == \E it \in wire : it.kind = "sig" /\
             wire' = wire \cup {[it EXCEPT !.conv = IF it.conv = "A" THEN "B" ELSE "A",
                                           !.bytes = IF it.conv = "A" THEN ReframeAB(it.bytes) ELSE ReframeBA(it.bytes)]}
Next == Cardinality(wire) < MaxItems /\ (ExportPK \/ ExportSig \/ Tamper \/ Reframe)
Spec == Init /\ [][Next]_wire

Dec(it) == IF it.kind = "pk" THEN LET d == DecodePK(it.bytes, ToyA) IN [ok |-> d.ok, obj |-> d.h]
           ELSE IF it.conv = "A" THEN DecSigA(it.bytes) ELSE DecSigB(it.bytes)
Enc(it, obj) == IF it.kind = "pk" THEN EncodePK(obj, ToyA) ELSE IF it.conv = "A" THEN EncSigA(obj) ELSE EncSigB(obj)
\* an item that was never tampered with decodes to the object it was made from, in whichever convention it currently is
RoundTripAndInterop == \A it \in wire : ~it.tampered => (Dec(it).ok /\ Dec(it).obj = it.origin)
\* anything accepted is canonical for the accepting party
Strict == \A it \in wire : Dec(it).ok => Enc(it, Dec(it).obj) = it.bytes
\* reframing there and back
Reframing == \A it \in wire : (it.kind = "sig" /\ it.conv = "A" /\ ~it.tampered) => ReframeBA(ReframeAB(it.bytes)) = it.bytes
\* a salt byte of 0 is the corner where naive zero-stripping would eat the salt: the model's Reframe handles a body that is
\* entirely zero only for undecodable items; vacuity guards
SomeTamperedAccepted == \A it \in wire : it.tampered => ~Dec(it).ok
=====================================================================
