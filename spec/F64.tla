------------------------------ MODULE F64 ------------------------------
(* IEEE-754 binary64 arithmetic with round-to-nearest-even, exactly, on BigNat mantissas.  A finite      *)
(* double is [sg |-> 0|1, m |-> BigNat, e |-> Int] with value (-1)^sg * m * 2^e; normal numbers have        *)
(* 2^52 <= m < 2^53.  Operands arrive as their 64 raw bits (four 16-bit words, most significant first).   *)
(* Supported: normal numbers and zero; add, sub, mul, div, floor, comparison, integer conversion.       *)
(* Infinities, NaNs, subnormal results and exponent overflow are outside the supported domain (the      *)
(* sampler's values are far from them); `FOk` records that an operation stayed inside it.              *)
(* Why exact emulation: the sampler's verdicts are a deterministic function of its inputs and bytes in   *)
(* the reference arithmetic (the Falcon known-answer vectors depend on it); a tolerance is used only     *)
(* where a property is stated with one (C13).                                                        *)
EXTENDS BigNat
FZero(sg) == [sg |-> sg, m |-> <<>>, e |-> 0]
FIsZero(a) == a.m = <<>>
\* decode raw bits
FFromWords(w) ==
  LET sg == w[1] \div 32768
      ex == (w[1] \div 16) % 2048
      frac == BFromWords(<<w[1] % 16, w[2], w[3], w[4]>>)
  IN IF ex = 0 THEN (IF frac = <<>> THEN FZero(sg) ELSE [sg |-> sg, m |-> frac, e |-> -1074])     \* subnormal: decoded exactly
     ELSE [sg |-> sg, m |-> BAdd(frac, BShl(<<1>>, 52)), e |-> ex - 1075]
FIsSpecialWords(w) == (w[1] \div 16) % 2048 = 2047      \* inf / nan
\* encode a normalised value (2^52 <= m < 2^53, or zero)
FToWords(a) ==
  IF FIsZero(a) THEN <<32768 * a.sg, 0, 0, 0>>
  ELSE LET frac == BSub(a.m, BShl(<<1>>, 52))
           w == BToWords4(frac)
       IN <<32768 * a.sg + 16 * (a.e + 1075) + w[1], w[2], w[3], w[4]>>
\* round the exact value (-1)^sg * M * 2^E to the nearest double, ties to even
FRound(sg, M, E) ==
  IF M = <<>> THEN FZero(sg)
  ELSE LET L == BBitLen(M) IN
       IF L <= 53 THEN [sg |-> sg, m |-> BShl(M, 53 - L), e |-> E - (53 - L)]
       ELSE LET k == L - 53
                q == BShr(M, k)
                rem == BLow(M, k)
                half == BShl(<<1>>, k - 1)
                c == BCmp(rem, half)
                up == c = 1 \/ (c = 0 /\ BIsOdd(q))
                q2 == IF up THEN BAdd(q, <<1>>) ELSE q
            IN IF BBitLen(q2) = 54 THEN [sg |-> sg, m |-> BShr(q2, 1), e |-> E + k + 1]
               ELSE [sg |-> sg, m |-> q2, e |-> E + k]
FOk(a) == FIsZero(a) \/ (BBitLen(a.m) = 53 /\ a.e > -1074 /\ a.e < 971)
FNeg(a) == [a EXCEPT !.sg = 1 - a.sg]
FMul(a, b) == IF FIsZero(a) \/ FIsZero(b) THEN FZero((a.sg + b.sg) % 2)
              ELSE FRound((a.sg + b.sg) % 2, BMul(a.m, b.m), a.e + b.e)
\* exact sum of two values as (sign, M, E), then one rounding.  When the exponents differ by more than
\* 120 the smaller operand only acts as a sticky bit below the rounding position.
FAdd(a, b) ==
  IF FIsZero(a) THEN (IF FIsZero(b) THEN FZero(IF a.sg = 1 /\ b.sg = 1 THEN 1 ELSE 0) ELSE b)
  ELSE IF FIsZero(b) THEN a
  ELSE LET hi == IF a.e >= b.e THEN a ELSE b
           lo == IF a.e >= b.e THEN b ELSE a
           d == hi.e - lo.e
           dd == IF d > 120 THEN 120 ELSE d
           H == BShl(hi.m, dd)
           Lo == IF d > 120 THEN <<1>> ELSE lo.m          \* sticky
           E == hi.e - dd
       IN IF hi.sg = lo.sg THEN FRound(hi.sg, BAdd(H, Lo), E)
          ELSE LET c == BCmp(H, Lo) IN
               IF c = 0 THEN FZero(0)
               ELSE IF c = 1 THEN FRound(hi.sg, BSub(H, Lo), E)
               ELSE FRound(lo.sg, BSub(Lo, H), E)
FSub(a, b) == FAdd(a, FNeg(b))
\* quotient: 60 extra bits and a sticky bit, then one rounding
FDiv(a, b) ==
  IF FIsZero(a) THEN FZero((a.sg + b.sg) % 2)
  ELSE LET dm == BDivMod(BShl(a.m, 60), b.m)
           Q == BAdd(BShl(dm.q, 1), IF dm.r = <<>> THEN <<>> ELSE <<1>>)
       IN FRound((a.sg + b.sg) % 2, Q, a.e - b.e - 61)
\* floor to an integer value, returned as [neg, mag (BigNat)]
FFloorBig(a) ==
  IF FIsZero(a) THEN [neg |-> FALSE, mag |-> <<>>]
  ELSE IF a.e >= 0 THEN [neg |-> a.sg = 1, mag |-> BShl(a.m, a.e)]
  ELSE LET q == BShr(a.m, -a.e)  frac == BLow(a.m, -a.e)
       IN IF a.sg = 0 THEN [neg |-> FALSE, mag |-> q]
          ELSE [neg |-> TRUE, mag |-> IF frac = <<>> THEN q ELSE BAdd(q, <<1>>)]
\* floor as a TLC integer (|result| < 2^31 required)
FFloorInt(a) == LET f == FFloorBig(a) IN IF f.neg THEN -BToSmall(f.mag) ELSE BToSmall(f.mag)
\* floor(a * 2^k) for a >= 0 as a BigNat (the fixed-point conversions of ApproxExp)
FFloorScaled(a, k) == IF FIsZero(a) THEN <<>> ELSE
                      LET sh == a.e + k IN IF sh >= 0 THEN BShl(a.m, sh) ELSE BShr(a.m, -sh)
FFromInt(i) == IF i = 0 THEN FZero(0) ELSE FRound(IF i < 0 THEN 1 ELSE 0, BFromSmall(Abs(i)), 0)
\* comparison of values: -1, 0, 1
FCmp(a, b) ==
  LET d == FSub(a, b) IN IF FIsZero(d) THEN 0 ELSE IF d.sg = 1 THEN -1 ELSE 1
\* |a - b| <= 2^-k * max(|a|, |b|)  (both zero counts as close)
FClose(a, b, k) ==
  IF FIsZero(a) /\ FIsZero(b) THEN TRUE
  ELSE LET d == FSub(a, b)
           big == IF FIsZero(a) THEN b ELSE IF FIsZero(b) THEN a ELSE (IF FCmp([a EXCEPT !.sg = 0], [b EXCEPT !.sg = 0]) >= 0 THEN a ELSE b)
       IN FIsZero(d) \/ (d.e + BBitLen(d.m)) <= (big.e + BBitLen(big.m)) - k
=====================================================================
