SPECIFICATION Spec
CHECK_DEADLOCK FALSE
CONSTANTS
  Threads = {t1, t2}
  Seeds = {1, 5}
  Msgs = {0}
  MaxCalls = 1
  MaxRetry = 0
  ZChoices <- ZWide
  ZPolicy = "short+long"
  Variant = "keygen-reads-rng"
  PreKeys = FALSE
INVARIANTS TypeOK KeygenFunctional
PROPERTIES 
