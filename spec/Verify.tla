----------------------------- MODULE Verify -----------------------------
(* Algorithm 16 (Verify) of the Falcon specification, from raw bytes:                              *)
(*   DecodeSig, DecodePK -> Decompress (fail => reject) -> c = HashToPoint(salt || m)              *)
(*   -> s1 = c - s2*h mod q, centred -> accept iff ||s1||^2 + ||s2||^2 <= floor(beta^2).           *)
(* Every outcome is a named branch so that trace validation can tally which ones were exercised. *)
EXTENDS KeyCodec, HashToPoint, Ntt

\* the ring product s2*h mod q: the schoolbook definition, or (equal by MC_Ntt) through the NTT
RingMul(a, b, n) == CtxMul(Ctx(Q, G1, n), a, b)

\* outcome record: [accept, branch, norm]
VerifyParts(msg, salt, body, h, P) ==
  LET d == SpecDecompress(body, P.n)
  IN IF ~d.ok THEN [accept |-> FALSE, branch |-> "reject-" \o d.why, norm |-> -1]
     ELSE LET c  == SpecHashToPoint(salt \o msg, P.n)
              s2 == Arr(P.n, LAMBDA i : d.v[i] % Q)
              p  == RingMul(s2, h, P.n)
              s1 == Arr(P.n, LAMBDA i : Balanced(c[i] - p[i], Q))
              \* saturating sums: every term is < 2^28 and the cap is 2^30, so no 32-bit overflow; bound < 2^27
              n1 == NormSqCap(s1, NormCap)  n2 == NormSqCap(d.v, NormCap)
              nrm == IF n1 >= NormCap \/ n2 >= NormCap THEN NormCap ELSE n1 + n2
          IN [accept |-> nrm <= P.bound, branch |-> IF nrm <= P.bound THEN "accept" ELSE "reject-norm", norm |-> nrm]

\* from bytes; objects that do not decode have no verdict ("undecodable": the API cannot be called)
SpecVerify(msg, sigb, pkb, P) ==
  LET ds == DecodeSig(sigb, P)  dp == DecodePK(pkb, P)
  IN IF ~ds.ok THEN [accept |-> FALSE, branch |-> "undecodable-sig-" \o ds.why, norm |-> -1]
     ELSE IF ~dp.ok THEN [accept |-> FALSE, branch |-> "undecodable-pk-" \o dp.why, norm |-> -1]
     ELSE VerifyParts(msg, ds.salt, ds.body, dp.h, P)
=====================================================================
