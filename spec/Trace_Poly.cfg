SPECIFICATION Spec
CHECK_DEADLOCK FALSE
POSTCONDITION TraceAccepted
