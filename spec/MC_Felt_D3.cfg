SPECIFICATION Spec
INVARIANTS AllConversions
CHECK_DEADLOCK FALSE
CONSTANTS Variant = "prefix" Stride = 4096
