---------------------------- MODULE Params ----------------------------
(* The Falcon parameter sets (Falcon specification v1.2, Table 3.3 and section 3.11) and toy      *)
(* sets used by the exhaustive model-checking configurations.                                   *)
EXTENDS Util
Q == 12289
\* first 16-bit value rejected by HashToPoint: k*q with k = floor(2^16 / q) = 5
HashReject == 61445
\* unary runs of this length or more are rejected by Decompress (|coefficient| < 12160 = 95 * 128)
HighMax == 95
SaltLen == 40

Falcon512 == [n |-> 512, logn |-> 9, q |-> Q, bound |-> 34034726, siglen |-> 666, bodylen |-> 625,
              pklen |-> 897, sklen |-> 1281, wfg |-> 6, wF |-> 8, wpk |-> 14,
              sighdr |-> 89 (* 0x59 = 0 10 1 1001: this crate's compressed-format label *),
              refsighdr |-> 57 (* 0x39 = 0 01 1 1001: the label of the Falcon specification / PQClean *)]
Falcon1024 == [n |-> 1024, logn |-> 10, q |-> Q, bound |-> 70265242, siglen |-> 1280, bodylen |-> 1239,
              pklen |-> 1793, sklen |-> 2305, wfg |-> 5, wF |-> 8, wpk |-> 14,
              sighdr |-> 90, refsighdr |-> 58]
ParamsOf(n) == IF n = 512 THEN Falcon512 ELSE Falcon1024

\* IEEE-754 bit patterns (four 16-bit words, most significant first) of the floating-point parameters.
\* For positive doubles the order of values is the lexicographic order of these words.
SigmaMin512Bits  == <<16372, 29185, 48927, 31349>>   \* 1.2778336969128337
SigmaMin1024Bits == <<16372, 50625, 39312, 51044>>   \* 1.298280334344292
SigmaMaxBits     == <<16381, 8388, 39845, 58196>>    \* 1.8205
Sigma512Bits     == <<16484, 46994, 24114, 53743>>   \* 165.7366171829776
Sigma1024Bits    == <<16485, 3183, 11618, 57882>>    \* 168.38857144654395
SigmaMinBitsOf(n) == IF n = 512 THEN SigmaMin512Bits ELSE SigmaMin1024Bits
\* a <= b for positive finite doubles given as word quadruples
LeqWords(a, b) == \/ a = b
                  \/ \E i \in 1..4 : a[i] < b[i] /\ \A j \in 1..(i - 1) : a[j] = b[j]
IsPositiveFinite(a) == a[1] < 32752   \* sign bit clear, exponent not all ones
=====================================================================
