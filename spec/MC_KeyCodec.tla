--------------------------- MODULE MC_KeyCodec ---------------------------
(* Exhaustive theorems about the key and signature encodings (KeyCodec.tla) in a toy format of the      *)
(* same shape: n = 2, q = 17, public-key fields of 8 bits (so that out-of-range fields exist: 17..255),   *)
(* secret-key fields of 2/2/4 bits, signatures with a 1-byte salt and a 3-byte body.                     *)
(*   Strict    : Decode(b) = Ok(x) => Encode(x) = b            for ALL byte strings b of the toy length     *)
(*               (and strings of other lengths / other headers are rejected)                            *)
(*   RoundTrip : Decode(Encode(x)) = Ok(x)                      for ALL representable objects x             *)
(*   NonRepr   : a non-representable secret key does NOT survive Encode/Decode (documents defect D6)     *)
(* One TLC state per header byte (256 states); bodies are enumerated inside the invariant.            *)
EXTENDS KeyCodec
VARIABLE hb
Toy == [n |-> 2, logn |-> 1, q |-> 17, wpk |-> 8, wfg |-> 2, wF |-> 4, pklen |-> 3, sklen |-> 3, siglen |-> 5, bodylen |-> 3,
        sighdr |-> 81, saltlen |-> 1]
Bodies(k) == [1..k -> 0..255]
StrictPK(h0) == \A t \in Bodies(2) : LET b == <<h0>> \o t  d == DecodePK(b, Toy) IN
                   /\ d.ok => EncodePK(d.h, Toy) = b
                   /\ d.ok = (h0 = Toy.logn /\ t[1] < 17 /\ t[2] < 17)
StrictSK(h0) == \A t \in Bodies(2) : LET b == <<h0>> \o t  d == DecodeSK(b, Toy) IN
                   /\ d.ok => (EncodeSK(d.f, d.g, d.F, Toy) = b /\ Representable(d.f, d.g, d.F, Toy))
                   /\ (h0 # 80 + Toy.logn) => ~d.ok
WrongLength(h0) == \A k \in {0, 1, 3} : \A t \in (IF k = 0 THEN {<<>>} ELSE IF k = 1 THEN Bodies(1) ELSE {<<1, 2, 3>>, <<0, 0, 0>>}) :
                     ~DecodePK(<<h0>> \o t, Toy).ok /\ ~DecodeSK(<<h0>> \o t, Toy).ok
StrictSig(h0) == \A t \in {<<s, x, y, z>> : s \in {0, 255}, x \in {0, 128}, y \in {0, 1}, z \in {0, 7}} :
                   LET b == <<h0>> \o t  d == DecodeSigL(b, Toy, Toy.saltlen) IN
                     /\ d.ok = (h0 = Toy.sighdr)
                     /\ d.ok => <<Toy.sighdr>> \o d.salt \o d.body = b
\* all representable toy secret keys and public keys (attached to header state 0)
SmallFG == -1..1      \* 2-bit two's complement without the minimum: -1, 0, 1
SmallF == -7..7
RoundTrip ==
  /\ \A f \in [1..2 -> SmallFG], g \in [1..2 -> SmallFG], F \in [1..2 -> SmallF] :
       LET d == DecodeSK(EncodeSK(f, g, F, Toy), Toy) IN d.ok /\ d.f = f /\ d.g = g /\ d.F = F
  /\ \A h \in [1..2 -> 0..16] : LET d == DecodePK(EncodePK(h, Toy), Toy) IN d.ok /\ d.h = h
NonRepr ==
  \A v \in {-2, 2, 3} : LET f == <<v, 0>>  d == DecodeSK(EncodeSK(f, <<0, 1>>, <<0, 0>>, Toy), Toy)
                        IN ~Representable(f, <<0, 1>>, <<0, 0>>, Toy) /\ (~d.ok \/ d.f # f)
Init == hb = -1
Next == \/ hb = -1 /\ \E k \in 0..15 : hb' = -2 - k
        \/ hb <= -2 /\ \E x \in 0..255 : x % 16 = -2 - hb /\ hb' = x
Spec == Init /\ [][Next]_hb
Theorems == hb < 0 \/ (StrictPK(hb) /\ StrictSK(hb) /\ WrongLength(hb) /\ StrictSig(hb) /\ (hb = 0 => (RoundTrip /\ NonRepr)))
=====================================================================
