----------------------------- MODULE MC_Babai -----------------------------
(* Validates the residue-based evaluation of the Babai postconditions (Babai.tla) against schoolbook          *)
(* arithmetic over Z on the toy ring Z[x]/(x^4+1): for all f in a box and selected g, k, F0, G0               *)
(*   - (F,G) = (F0,G0) + k (f,g): DetInvariant holds between (F,G) and (F0,G0); MultipleOf reconstructs k;        *)
(*   - a perturbed pair (F0 + e1, G0) is NOT a multiple apart and breaks the invariant (unless g e1 = 0).        *)
EXTENDS Babai
VARIABLE f
Box == {-3, 0, 2}
Vec4(S) == [1..4 -> S]
SchoolDet(ff, g, X, Y) == VecSub(NegacyclicMulZ(ff, Y), NegacyclicMulZ(g, X))
Holds(ff) ==
  \A g \in {<<1, -2, 0, 3>>, <<0, 0, 0, 0>>, <<5, 5, -5, 1>>} : \A k \in {<<0, 0, 0, 0>>, <<1000, -77, 0, 4>>, <<-8388607, 1, 1, 8388607>>} :
    \A F0 \in {<<0, 0, 0, 0>>, <<3, -1, 4, 1>>} :
      LET G0 == <<2, 7, -1, 8>>
          F == VecAdd(F0, NegacyclicMulZ(k, ff))  G == VecAdd(G0, NegacyclicMulZ(k, g))
          m == MultipleOf(ff, g, VecSub(F, F0), VecSub(G, G0))
          Fbad == [F0 EXCEPT ![1] = @ + 1]
      IN /\ DetInvariant(ff, g, F, G, F0, G0) = (SchoolDet(ff, g, F, G) = SchoolDet(ff, g, F0, G0))
         /\ SchoolDet(ff, g, F, G) = SchoolDet(ff, g, F0, G0)
         /\ (m.decided => m.holds)
         /\ (m.decided /\ ff # <<0, 0, 0, 0>> => m.kmax = MaxAbs(k))
         /\ DetInvariant(ff, g, F, G, Fbad, G0) = (SchoolDet(ff, g, F, G) = SchoolDet(ff, g, Fbad, G0))
         /\ LET mb == MultipleOf(ff, g, VecSub(F, Fbad), VecSub(G, G0)) IN (mb.decided /\ g # <<0, 0, 0, 0>>) => ~mb.holds
\* two-level fan-out (root -> 16 shards -> jobs) so that all workers share the jobs
JobSeq == SetToSeq(Vec4(Box))
Init == f = <<-100>>
Next == \/ f = <<-100>> /\ \E k \in 0..15 : f' = <<-200, k>>
        \/ f[1] = -200 /\ \E i \in 1..Len(JobSeq) : i % 16 = f[2] /\ f' = JobSeq[i]
Spec == Init /\ [][Next]_f
Theorems == f[1] \in {-100, -200} \/ Holds(f)
=====================================================================
