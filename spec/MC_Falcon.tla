---------------------------- MODULE MC_Falcon ----------------------------
EXTENDS Falcon
\* a handful of sampler outcomes: includes the zero vector (always small), large ones (norm rejection) and ones hitting the bound
ZFew == {<<<<0, 0>>, <<0, 0>>>>, <<<<1, 0>>, <<0, 0>>>>, <<<<0, 1>>, <<1, 0>>>>, <<<<2, -2>>, <<1, 1>>>>}
ZBox == {<<<<a, b>>, <<c, d>>>> : a, b, c, d \in -1..1}
ZWide == {<<<<a, b>>, <<c, d>>>> : a, b, c, d \in -2..2}
ZMid == {<<<<a, b>>, <<c, d>>>> : a, b, c, d \in -3..3}
ZHuge == {<<<<a, b>>, <<c, d>>>> : a, b, c, d \in -5..5}
=====================================================================
