---------------------------- MODULE Trace_Fft ----------------------------
(* Trace validation of the real complex transforms (hook wrappers) against FftFacts.tla.                      *)
(*  {"ev":"ctable","table":[[re words, im words] x 1024]}                                                     *)
(*  {"ev":"fftcomp","kind":"mul"|"roundtrip"|"merge"|"split"|"mergesplit","n","a","b","R","rho","maxim","len","panic"} *)
EXTENDS FftFacts, TraceLib
VARIABLES l, bad
vars == <<l, bad>>
Judge(e) ==
  IF e.ev = "ctable" THEN
    LET f == TableFacts(e.table)
        ok == f.len /\ f.first /\ f.badroot = {} /\ f.badrot = {}
    IN [ok |-> ok, branch |-> "table", detail |-> IF ok THEN <<1024>> ELSE <<"first", f.first, "bad-square-root-at-2j", f.badroot, "bad-rotation-at-2j+1", f.badrot>>]
  ELSE IF e.panic THEN [ok |-> FALSE, branch |-> "panic", detail |-> <<>>]
  ELSE
    LET acc == Accurate(e.kind, e.a, e.b, e.R, e.rho)
        \* imaginary parts of a real result: at most the same tolerance (2^-30 units here), generously 2^20 units = 2^-10 is never reached
        nb == IF e.kind = "mul" THEN BNormSq(e.b) ELSE <<1>>
        imok == BLe(BMul(BFromSmall(IF e.maxim > 1 THEN e.maxim - 1 ELSE 0), BFromSmall(IF e.maxim > 1 THEN e.maxim - 1 ELSE 0)), BMul(BNormSq(e.a), nb))
    IN [ok |-> acc.ok /\ imok, branch |-> e.kind \o "-n" \o ToString(e.n) \o "-" \o e.tag, detail |-> <<"max-error-2^-28-units", acc.smax, "max-imag-2^-30-units", e.maxim>>]
ASSUME TLCSet(2, Force([i \in 1..NRec |-> Judge(Rec[i])]))
Judged == TLCGet(2)
Init == l = 1 /\ bad = {}
Next == /\ l <= NRec
        /\ LET j == Judged[l] IN
             /\ PrintT(<<"VERDICT", l, IF j.ok THEN "ok" ELSE "MISMATCH", j.branch, j.detail>>)
             /\ bad' = IF j.ok THEN bad ELSE bad \cup {l}
        /\ l' = l + 1
        /\ (IF l < NRec THEN TRUE ELSE PrintT(<<"DONE", NRec, bad'>>))
Spec == Init /\ [][Next]_vars
TraceAccepted == TLCGet("stats").diameter = NRec + 1
=====================================================================
