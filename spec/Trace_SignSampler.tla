------------------------ MODULE Trace_SignSampler ------------------------
(* The sampler as it is used INSIDE real sign calls (tap events of ffSampling's leaf calls), validated against       *)
(* SamplerZ.tla: for every loop iteration recorded during a sign call                                             *)
(*   {"ev":"iter","n","call","mu":[4w],"sigma":[4w],"sigmin":[4w],"z0","b","x":[4w],"ccs":[4w],"bytes":[7],"res":bool}   *)
(* TLC recomputes the Bernoulli parameter x and the scaling ccs from (mu, sigma', sigma_min, z0, b) in exact binary64   *)
(* arithmetic and the verdict of BerExp from the recorded (x, ccs, bytes), and demands: x and ccs equal up to 2^-40      *)
(* relative (they are intermediate values; only verdicts are demanded exactly), the same verdict,                      *)
(* sigma_min equal to the variant's parameter, and sigma' in [sigma_min, sigma_max] (the precondition C04 establishes).  *)
(* Per call {"ev":"callsum","n","call","accepted","iters","returned":bool}: exactly 2n accepted iterations per          *)
(* ffSampling pass (one per tree-leaf coordinate), i.e. accepted = 2n * (norm attempts); and the traversal order of the   *)
(* tree: "first_pass_sigmas" (widths of the accepted samples of the first pass, in call order) against "leaves" (the key's *)
(* leaves in pre-order): right subtree first, two samples per leaf.                                                   *)
(* "leaf_product": the product of the squared leaves times (q / sigma^2)^n is 1 (up to 2^-30): the leaves under a node of the  *)
(* ffLDL tree multiply to the field norm of that node's Gram determinant, so all 2n leaf variances multiply to               *)
(* N(det G) = q^(2n), whatever the key; the stored leaves are sigma / sqrt(d).  This ties the tree to the parameter sigma of   *)
(* Params.tla and to det(B) = q exactly, not within a statistical window.                                                     *)
EXTENDS SamplerZ, Params, TraceLib
VARIABLES l, bad
SigmaBitsOf(n) == IF n = 512 THEN Sigma512Bits ELSE Sigma1024Bits
LeafProduct(leaves, n) ==
  LET sg == FFromWords(SigmaBitsOf(n))
      c == FDiv(FFromInt(12289), FMul(sg, sg))
  IN FoldLeft(LAMBDA acc, w : LET x == FFromWords(w) IN FMul(FMul(FMul(acc, x), x), c), FOne, leaves)
vars == <<l, bad>>
Judge(e) ==
  IF e.ev = "keyleaves" THEN
    \* the tree of a generated key: n leaves, each in [sigma_min, sigma_max], multiplying to (sigma^2/q)^n
    LET nl == Len(e.leaves)
        inrange == \A k \in 1..nl : LeqWords(SigmaMinBitsOf(e.n), e.leaves[k]) /\ LeqWords(e.leaves[k], SigmaMaxBits)
        prod == nl = e.n /\ FClose(LeafProduct(e.leaves, e.n), FOne, 30)
    IN [ok |-> nl = e.n /\ inrange /\ prod, branch |-> "keyleaves-n" \o ToString(e.n), detail |-> <<nl, inrange, prod>>]
  ELSE IF e.ev = "callsum" THEN
    \* Algorithm 11 (ffSampling) recurses into the RIGHT subtree first; at a leaf it draws two samples with that leaf's width.
    \* So the widths of the 2n accepted samples of one pass are the leaves in reversed pre-order, each twice.
    LET nl == Len(e.leaves)
        order == Len(e.first_pass_sigmas) = 2 * nl /\
                 \A k \in 1..nl : e.first_pass_sigmas[2 * k - 1] = e.leaves[nl - k + 1] /\ e.first_pass_sigmas[2 * k] = e.leaves[nl - k + 1]
        prod == nl = e.n /\ FClose(LeafProduct(e.leaves, e.n), FOne, 30)
    IN [ok |-> e.returned /\ e.accepted = 2 * e.n * e.attempts /\ e.iters >= e.accepted /\ nl = e.n /\ order /\ prod,
        branch |-> "call-n" \o ToString(e.n), detail |-> <<e.accepted, e.iters, order, prod>>]
  ELSE
    LET glue == SpecIterGlue(FFromWords(e.mu), FFromWords(e.sigma), FFromWords(e.sigmin), e.z0, e.b)
        be == SpecBerExp(FFromWords(e.x), FFromWords(e.ccs), e.bytes)
        \* x and ccs are intermediate values: demanded up to a relative 2^-40 (another valid order of the floating-point operations
        \* gives other last bits; x itself is a difference of two terms, so its tolerance is relative to the larger term, i.e. to
        \* max(|x|, 1)); the Bernoulli verdict is demanded exactly, from the RECORDED x and ccs
        xtol == FClose(glue.x, FFromWords(e.x), 40) \/ FClose(FAdd(glue.x, FOne), FAdd(FFromWords(e.x), FOne), 38)
        facts == [x_value |-> xtol, ccs_value |-> FClose(glue.ccs, FFromWords(e.ccs), 45), verdict |-> be.ok /\ be.res = e.res,
                  sigmin_param |-> e.sigmin = SigmaMinBitsOf(e.n),
                  sigma_in_range |-> LeqWords(SigmaMinBitsOf(e.n), e.sigma) /\ LeqWords(e.sigma, SigmaMaxBits)]
        failed == {k \in DOMAIN facts : ~facts[k]}
    IN [ok |-> failed = {}, branch |-> "iter-z0-" \o ToString(e.z0) \o (IF e.res THEN "-acc" ELSE "-rej"), detail |-> failed]
ASSUME TLCSet(2, Force([i \in 1..NRec |-> Judge(Rec[i])]))
Judged == TLCGet(2)
Init == l = 1 /\ bad = {}
Next == /\ l <= NRec
        /\ LET j == Judged[l] IN
             /\ PrintT(<<"VERDICT", l, IF j.ok THEN "ok" ELSE "MISMATCH", j.branch, j.detail>>)
             /\ bad' = IF j.ok THEN bad ELSE bad \cup {l}
        /\ l' = l + 1
        /\ (IF l < NRec THEN TRUE ELSE PrintT(<<"DONE", NRec, bad'>>))
Spec == Init /\ [][Next]_vars
TraceAccepted == TLCGet("stats").diameter = NRec + 1
=====================================================================
