----------------------------- MODULE MC_Felt -----------------------------
(* Exhaustive comparison of the implementation-shaped field model (ImplFelt) with arithmetic modulo    *)
(* q = 12289 (Zq): all 12289^2 operand pairs for add / sub / mul (one TLC state per left operand, the   *)
(* invariant folds over the right operand), all residues for neg / inverse / centred representative,  *)
(* all 65536 conversion inputs (in blocks of 16 per state).  Variant "prefix" swaps in the pre-fix      *)
(* conversion and must fail (defect D3).                                                            *)
EXTENDS ImplFelt
CONSTANTS Variant, Stride    \* Stride = 1: every left operand; k: every k-th (quick)
VARIABLE a
Canon(x) == 0 <= x /\ x < FQ
RowOK(x) ==
  /\ \A b \in 0..(FQ - 1) :
       /\ Add(x, b) = AddM(x, b, FQ)
       /\ Sub(x, b) = SubM(x, b, FQ)
       /\ Mul(x, b) = MulM(x, b, FQ)
  /\ Neg(x) = NegM(x, FQ) /\ Canon(Neg(x))
  /\ Inv(x) = InvM(x, FQ) /\ (x # 0 => Mul(x, Inv(x)) = 1) /\ (x = 0 => Inv(x) = 0)
  /\ Balanced0(x) = Balanced(x, FQ) /\ Balanced0(x) >= -6144 /\ Balanced0(x) <= 6144
\* conversion of the 16-bit integers congruent to x modulo q
ConvOK(x) ==
  \A v \in {x - 3 * FQ, x - 2 * FQ, x - FQ, x, x + FQ, x + 2 * FQ} :
     (v >= -32768 /\ v <= 32767) =>
        LET r == IF Variant = "prefix" THEN NewPreFix(v) ELSE New(v) IN r = v % FQ /\ Canon(r)
Init == a = -1
Next == \/ a = -1 /\ \E k \in 0..15 : a' = -2 - k
        \/ a <= -2 /\ \E x \in 0..(FQ - 1) : x % 16 = -2 - a /\ x % Stride = 0 /\ a' = x
Spec == Init /\ [][Next]_a
Theorems == a < 0 \/ (RowOK(a) /\ ConvOK(a))
\* conversions are checked for every residue regardless of Stride
AllConversions == a # -1 \/ \A x \in 0..(FQ - 1) : ConvOK(x)
=====================================================================
