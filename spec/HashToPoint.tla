-------------------------- MODULE HashToPoint --------------------------
(* Algorithm 3 (HashToPoint) of the Falcon specification: read the SHAKE-256 output stream of     *)
(* the string as big-endian 16-bit integers t; discard t >= 5q = 61445; append t mod q; stop at   *)
(* n coefficients.                                                                             *)
(* The reader is a machine over a byte stream with state (pos, coeffs); `Read16` is its only     *)
(* action.  `RunOnStream` folds the action over a finite stream prefix.                        *)
EXTENDS Keccak, Params

\* one action: consume the 16-bit chunk number k (1-based) of `stream`
Read16(st, stream, k, n) ==
  IF Len(st) = n THEN st
  ELSE LET t == 256 * stream[2 * k - 1] + stream[2 * k]
       IN IF t < HashReject THEN Append(st, t % Q) ELSE st

\* run over all complete chunks of the stream
RunOnStream(stream, n) ==
  FoldRange(LAMBDA st, k : Read16(st, stream, k, n), <<>>, 1, Len(stream) \div 2)

\* blocks to squeeze first: n coefficients need about n * 65536/61445 chunks of 2 bytes; Rate = 136
InitialBlocks(n) == ((2 * n * 11) \div (10 * Rate)) + 2

\* squeeze until n coefficients are available (the stream is infinite; a retry doubles the prefix)
SpecHashToPoint(str, n) ==
  LET try(nb) == RunOnStream(Shake256Blocks(str, nb), n)
      r1 == try(InitialBlocks(n))
  IN IF Len(r1) = n THEN r1
     ELSE LET r2 == try(2 * InitialBlocks(n)) IN
          IF Len(r2) = n THEN r2 ELSE try(8 * InitialBlocks(n))

\* number of stream bytes consumed to produce n coefficients, and the rejected chunk count
Consumed(stream, n) ==
  FoldRange(LAMBDA acc, k :
              IF acc.got = n THEN acc
              ELSE LET t == 256 * stream[2 * k - 1] + stream[2 * k]
                   IN IF t < HashReject THEN [acc EXCEPT !.got = @ + 1, !.used = 2 * k]
                      ELSE [acc EXCEPT !.rej = @ + 1, !.used = 2 * k],
            [got |-> 0, rej |-> 0, used |-> 0], 1, Len(stream) \div 2)
=====================================================================
