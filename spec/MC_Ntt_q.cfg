SPECIFICATION Spec
INVARIANT Theorems
CONSTANT MaxLogN = 6
CHECK_DEADLOCK FALSE
