SPECIFICATION Spec
CHECK_DEADLOCK FALSE
CONSTANTS
  Threads = {t1, t2}
  Seeds = {1, 5, 7}
  Msgs = {0}
  MaxCalls = 1
  MaxRetry = 0
  ZChoices <- ZFew
  ZPolicy = "all"
  Variant = "code"
  PreKeys = FALSE
INVARIANTS TypeOK Completeness CosetInvariant SaltsFresh KeygenFunctional SeedSensitive VerdictsSound
PROPERTIES KeysStable
