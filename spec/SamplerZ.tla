---------------------------- MODULE SamplerZ ----------------------------
(* Algorithms 12-15 of the Falcon specification (BaseSampler, ApproxExp, BerExp, SamplerZ), as functions  *)
(* of their arguments and of the byte stream, evaluated exactly: the 72-bit table comparison on byte       *)
(* strings, the 63-bit fixed-point polynomial on BigNat, and the floating-point glue in exact IEEE-754     *)
(* binary64 arithmetic (F64.tla), in the operation order of the reference implementation.               *)
(* Named deviations of falcon-rust from the specification text, modelled because they are observable:    *)
(*   - BerExp receives exactly 7 pre-drawn bytes and compares them with the 7 most significant bytes of z  *)
(*     (the text draws up to 8 bytes lazily); a tie on all 7 bytes is a rejection;                        *)
(*   - every random byte is one word of the generator (the code draws bytes with `gen::<u8>()`), so one    *)
(*     loop iteration consumes 9 + 1 + 7 = 17 stream bytes.                                             *)
EXTENDS F64
\* Table 3.1 of the specification (RCDT), as 9-byte big-endian strings (72-bit values)
RCDT == <<
  <<163, 247, 244, 46, 211, 172, 57, 24, 2>>,
  <<84, 211, 43, 24, 31, 63, 125, 219, 130>>,
  <<34, 125, 205, 208, 147, 72, 41, 193, 255>>,
  <<10, 209, 117, 67, 119, 199, 153, 74, 228>>,
  <<2, 149, 132, 108, 174, 243, 63, 31, 111>>,
  <<0, 119, 74, 199, 84, 237, 116, 189, 95>>,
  <<0, 16, 36, 221, 84, 43, 119, 106, 228>>,
  <<0, 1, 161, 255, 220, 101, 173, 99, 218>>,
  <<0, 0, 31, 128, 216, 138, 123, 100, 40>>,
  <<0, 0, 1, 195, 253, 178, 4, 12, 105>>,
  <<0, 0, 0, 18, 207, 36, 208, 49, 251>>,
  <<0, 0, 0, 0, 148, 159, 139, 9, 31>>,
  <<0, 0, 0, 0, 3, 102, 93, 169, 152>>,
  <<0, 0, 0, 0, 0, 14, 191, 110, 187>>,
  <<0, 0, 0, 0, 0, 0, 47, 93, 126>>,
  <<0, 0, 0, 0, 0, 0, 0, 112, 152>>,
  <<0, 0, 0, 0, 0, 0, 0, 0, 198>>,
  <<0, 0, 0, 0, 0, 0, 0, 0, 1>> >>
\* lexicographic order of equal-length byte strings = numeric order of the big-endian values
LexLt(a, b) == \E i \in 1..Len(a) : a[i] < b[i] /\ \A j \in 1..(i - 1) : a[j] = b[j]
\* Algorithm 12: z0 = number of table entries above u
SpecBase(u) == Cardinality({i \in 1..18 : LexLt(u, RCDT[i])})

\* Algorithm 13: the FACCT polynomial constants (scaled by 2^63), 16-bit words
ExpC == << <<0, 4, 29713, 33699>>, <<0, 54, 21644, 64518>>, <<0, 591, 56511, 5130>>, <<0, 5917, 37789, 57413>>,
           <<0, 53260, 62863, 28548>>, <<6, 32872, 7415, 38627>>, <<45, 33496, 12379, 4074>>, <<273, 4369, 3590, 28624>>,
           <<1365, 21845, 21767, 3840>>, <<5461, 21845, 21889, 65280>>, <<16384, 0, 2, 46080>>, <<32767, 65535, 65535, 18432>>,
           <<32768, 0, 0, 0>> >>
\* floor(v * 2^63) as an unsigned 64-bit integer, with Rust's saturating float-to-integer cast
U64Max == BSub(BShl(<<1>>, 64), <<1>>)
ToFixed63(v) == IF FIsZero(v) \/ v.sg = 1 THEN <<>>
                ELSE LET t == FFloorScaled(v, 63) IN IF BBitLen(t) > 64 THEN U64Max ELSE t
\* [ok, y]: ok = FALSE if a u64 subtraction would underflow (a panic in checked builds)
SpecApproxExp(x, ccs) ==
  LET z == ToFixed63(x)
      r == FoldLeft(LAMBDA acc, cu : LET t == BShr(BMul(z, acc.y), 63)  c == BFromWords(cu) IN
                      IF BLt(c, t) THEN [ok |-> FALSE, y |-> <<>>] ELSE [ok |-> acc.ok, y |-> BSub(c, t)],
                    [ok |-> TRUE, y |-> BFromWords(ExpC[1])], SubSeq(ExpC, 2, 13))
      zc == ToFixed63(ccs)
  IN [ok |-> r.ok, y |-> BShr(BMul(zc, r.y), 63)]

Ln2 == FFromWords(<<16358, 11842, 65274, 14831>>)              \* std::f64::consts::LN_2
SigmaMaxInv2 == FFromWords(<<16323, 20363, 49539, 48066>>)     \* 1 / (2 * 1.8205 * 1.8205) evaluated in binary64
FHalf == FFromWords(<<16352, 0, 0, 0>>)
FOne == FFromWords(<<16368, 0, 0, 0>>)

\* the 8 bytes (most significant first) of a value below 2^64
Bytes8(a) == LET w == BToWords4(a) IN <<w[1] \div 256, w[1] % 256, w[2] \div 256, w[2] % 256, w[3] \div 256, w[3] % 256, w[4] \div 256, w[4] % 256>>
\* Algorithm 14 as the code runs it: [ok, res, s, z]
SpecBerExp(x, ccs, bytes7) ==
  LET q == FDiv(x, Ln2)
      sfl == FFloorBig(q)
      s == IF sfl.neg THEN 0 ELSE (IF BBitLen(sfl.mag) > 30 THEN 1073741823 ELSE BToSmall(sfl.mag))   \* `as usize` saturates below at 0
      r == FSub(x, FMul(Ln2, FFromInt(s)))
      ae == SpecApproxExp(r, ccs)
      sh == IF s < 63 THEN s ELSE 63
      two == BShl(ae.y, 1)
      z == IF two = <<>> THEN <<>> ELSE BShr(BSub(two, <<1>>), sh)
      zb == Bytes8(z)
  IN [ok |-> ae.ok /\ two # <<>>, res |-> LexLt(bytes7, SubSeq(zb, 1, 7)), s |-> s, z |-> zb]

\* Algorithm 15.  bytes: the stream; returns [done, value, iters, used]: the first accepting iteration's value,
\* or done = FALSE if the supplied prefix is exhausted first (the specified algorithm would keep drawing).
SpecSamplerZ(mu, sigma, sigmin, bytes) ==
  LET isigma == FDiv(FOne, sigma)
      dss == FMul(FMul(FHalf, isigma), isigma)
      fl == FFloorBig(mu)
      sInt == IF fl.neg THEN -BToSmall(fl.mag) ELSE BToSmall(fl.mag)
      r == FSub(mu, FFromInt(sInt))
      ccs == FMul(sigmin, isigma)
      iter(st, k) ==
        IF st.done \/ ~st.ok THEN st
        ELSE LET o == 17 * (k - 1)
                 z0 == SpecBase(SubSeq(bytes, o + 1, o + 9))
                 b == bytes[o + 10] % 2
                 z == b + (2 * b - 1) * z0
                 zmr == FSub(FFromInt(z), r)
                 x == FSub(FMul(FMul(zmr, zmr), dss), FMul(FFromInt(z0 * z0), SigmaMaxInv2))
                 be == SpecBerExp(x, ccs, SubSeq(bytes, o + 11, o + 17))
             IN IF ~be.ok THEN [st EXCEPT !.ok = FALSE]
                ELSE IF be.res THEN [done |-> TRUE, ok |-> TRUE, value |-> z + sInt, iters |-> k, used |-> 17 * k]
                ELSE [st EXCEPT !.iters = k, !.used = 17 * k]
  IN FoldRange(iter, [done |-> FALSE, ok |-> TRUE, value |-> 0, iters |-> 0, used |-> 0], 1, Len(bytes) \div 17)

\* one loop iteration's float glue as a function of its inputs: the Bernoulli parameter x and the scaling ccs
SpecIterGlue(mu, sigma, sigmin, z0, b) ==
  LET isigma == FDiv(FOne, sigma)
      dss == FMul(FMul(FHalf, isigma), isigma)
      fl == FFloorBig(mu)
      sInt == IF fl.neg THEN -BToSmall(fl.mag) ELSE BToSmall(fl.mag)
      r == FSub(mu, FFromInt(sInt))
      z == b + (2 * b - 1) * z0
      zmr == FSub(FFromInt(z), r)
  IN [x |-> FSub(FMul(FMul(zmr, zmr), dss), FMul(FFromInt(z0 * z0), SigmaMaxInv2)), ccs |-> FMul(sigmin, isigma), z |-> z, s |-> sInt]

\* gen_poly of key generation (Algorithm 5, lines 2-3 as falcon-rust implements them): n coefficients, each the sum of
\* 4096/n consecutive outputs of SamplerZ(0, sigma*, sigma* - 0.001) on one byte stream.
\* Returns [ok, done, out, used]; done = FALSE if the stream prefix is exhausted first.
SigmaStar == FFromWords(<<16374, 60827, 45192, 60952>>)          \* 1.43300980528773
SigmaStarMin == FFromWords(<<16374, 59779, 7444, 12718>>)        \* 1.43300980528773 - 0.001
SpecGenPoly(n, bytes) ==
  LET per == 4096 \div n
      L == Len(bytes)
      step(st, k) ==
        IF ~st.done \/ ~st.ok THEN st
        ELSE LET hi == IF st.used + 17 * 48 < L THEN st.used + 17 * 48 ELSE L       \* a window of 48 iterations per sample
                 r == SpecSamplerZ(FZero(0), SigmaStar, SigmaStarMin, SubSeq(bytes, st.used + 1, hi))
                 sum == st.acc + r.value
             IN IF ~r.ok THEN [st EXCEPT !.ok = FALSE]
                ELSE IF ~r.done THEN [st EXCEPT !.done = FALSE]
                ELSE [ok |-> TRUE, done |-> TRUE, used |-> st.used + r.used,
                      out |-> IF k % per = 0 THEN Append(st.out, sum) ELSE st.out,
                      acc |-> IF k % per = 0 THEN 0 ELSE sum]
  IN FoldRange(step, [ok |-> TRUE, done |-> TRUE, out |-> <<>>, acc |-> 0, used |-> 0], 1, 4096)
=====================================================================
