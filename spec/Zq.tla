----------------------------- MODULE Zq -----------------------------
(* Arithmetic modulo a prime p < 2^15.5 (so that products fit TLC's 32-bit integers) and the   *)
(* negacyclic ring Z_p[x]/(x^n+1): the *mathematical definitions* the code is compared with.    *)
EXTENDS Util

AddM(a, b, p) == (a + b) % p
SubM(a, b, p) == (a - b) % p
NegM(a, p)    == (p - a) % p
MulM(a, b, p) == (a * b) % p
\* a^e mod p by square-and-multiply over the bits of e (e < 2^31)
PowM(a, e, p) ==
  LET r == FoldRange(LAMBDA acc, k :
                 LET bit == (e \div (2 ^ k)) % 2
                 IN [res |-> IF bit = 1 THEN (acc.res * acc.sq) % p ELSE acc.res,
                     sq  |-> (acc.sq * acc.sq) % p],
               [res |-> 1, sq |-> a % p], 0, 30)
  IN r.res
\* inverse by Fermat; 0 for 0 (the library's inverse_or_zero convention)
InvM(a, p) == IF a % p = 0 THEN 0 ELSE PowM(a, p - 2, p)
\* centred representative in [-(p-1)/2, (p-1)/2]
Balanced(a, p) == LET r == a % p IN IF r > (p \div 2) THEN r - p ELSE r

\* ---- polynomials: sequences of length n, index i <-> coefficient of x^(i-1)
ReduceSeq(a, p) == Arr(Len(a), LAMBDA i : a[i] % p)

\* schoolbook negacyclic product mod p: c_k = sum_{i+j=k} a_i b_j - sum_{i+j=k+n} a_i b_j
\* inputs must already be reduced to [0,p)
NegacyclicMul(a, b, p) ==
  LET n == Len(a)
  IN Arr(n, LAMBDA k :
       FoldRange(LAMBDA acc, i :
                   IF i <= k THEN (acc + a[i] * b[k - i + 1]) % p
                   ELSE (acc + p * p - a[i] * b[n + k - i + 1]) % p,
                 0, 1, n))
\* the same over Z (no reduction): exact negacyclic product of small integer vectors
NegacyclicMulZ(a, b) ==
  LET n == Len(a)
  IN Arr(n, LAMBDA k :
       FoldRange(LAMBDA acc, i :
                   IF i <= k THEN acc + a[i] * b[k - i + 1] ELSE acc - a[i] * b[n + k - i + 1],
                 0, 1, n))
VecAdd(a, b) == Arr(Len(a), LAMBDA i : a[i] + b[i])
VecSub(a, b) == Arr(Len(a), LAMBDA i : a[i] - b[i])
VecNeg(a) == Arr(Len(a), LAMBDA i : -a[i])
PolyAdd(a, b, p) == Arr(Len(a), LAMBDA i : (a[i] + b[i]) % p)
PolySub(a, b, p) == Arr(Len(a), LAMBDA i : (a[i] - b[i]) % p)
\* Hermitian adjoint a*(x) = a(1/x): a*_0 = a_0, a*_i = -a_{n-i}
Adj(a, p) == LET n == Len(a) IN Arr(n, LAMBDA i : IF i = 1 THEN a[1] % p ELSE (p - a[n - i + 2]) % p)
\* squared Euclidean norm of an integer vector
NormSq(v) == FoldLeft(LAMBDA acc, x : acc + x * x, 0, v)
\* the same, saturating at cap (terms must be < 2^31 - cap): safe for vectors whose norm overflows 32 bits
NormSqCap(v, cap) == FoldLeft(LAMBDA acc, x : IF acc >= cap THEN acc ELSE acc + x * x, 0, v)
NormCap == 1073741824
=====================================================================
