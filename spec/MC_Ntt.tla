---------------------------- MODULE MC_Ntt ----------------------------
(* Theorems about the NTT network of Ntt.tla, checked by TLC.                                   *)
(*  (T1) generators: G is a generator of Z_P^* for the three CRT primes (order test on the       *)
(*       prime factors of P-1), so psi = G^((P-1)/2n) is a primitive 2n-th root: psi^n = -1.    *)
(*  (T2) toy ring q = 17, n in {2,4,8}: Inverse(Forward(a)) = a for all a (n <= 4) and the       *)
(*       product theorem CtxMul = NegacyclicMul on all pairs (n = 2), all a x basis b (n = 4),  *)
(*       basis x basis (n = 8).                                                                 *)
(*  (T3) q = 12289 and every n = 2^w <= 1024: Forward(e_i)[k] = psi^((2 brv(k)+1) i) for every   *)
(*       basis vector e_i: the network is the evaluation map at the odd powers of psi.  Each     *)
(*       stage is Z_q-linear in the array by construction (FwdStage is a linear form in a), so   *)
(*       (T3) determines Forward on all inputs, and evaluation maps are ring homomorphisms       *)
(*       Z_q[x]/(x^n+1) -> Z_q^n: the product theorem for all inputs.                            *)
(* State space: one state per theorem instance (variable `job`), reached through 16 shard states. *)
EXTENDS Ntt
CONSTANT MaxLogN   \* 10 in the thorough config, smaller in quick

VARIABLE job
vars == <<job>>

PrimeFactors(m) == {f \in 2..41 : m % f = 0 /\ \A d \in 2..(f - 1) : f % d # 0}
\* p - 1 for our primes factor over small primes only: 12288 = 2^12*3, 18432 = 2^11*9, 40960 = 2^13*5
IsGenerator(g, p) == \A f \in PrimeFactors(p - 1) : PowM(g, (p - 1) \div f, p) # 1

Toy == 17
ToyG == 3
Vecs(n, p) == [1..n -> 0..(p - 1)]
Basis(n, i) == [k \in 1..n |-> IF k = i THEN 1 ELSE 0]

Jobs ==
  {[kind |-> "gen", p |-> pp[1], g |-> pp[2]] : pp \in {<<P1, G1>>, <<P2, G2>>, <<P3, G3>>, <<Toy, ToyG>>}}
  \cup {[kind |-> "toy-roundtrip", n |-> n] : n \in {2, 4}}
  \cup {[kind |-> "toy-product", n |-> n] : n \in {2, 4, 8}}
  \cup {[kind |-> "eval", w |-> w, i |-> i] : w \in 0..MaxLogN, i \in 0..3}   \* i: residue class of basis index mod 4
  \cup {[kind |-> "crt-product", p |-> pp[1], g |-> pp[2], n |-> n] : pp \in {<<P1, G1>>, <<P2, G2>>, <<P3, G3>>}, n \in {8, 64}}

Holds(j) ==
  CASE j.kind = "gen" -> IsGenerator(j.g, j.p)
    [] j.kind = "toy-roundtrip" ->
         LET c == Ctx(Toy, ToyG, j.n) IN \A a \in Vecs(j.n, Toy) : CtxInv(c, CtxFwd(c, a)) = a
    [] j.kind = "toy-product" ->
         LET c == Ctx(Toy, ToyG, j.n)
             As == IF j.n = 2 THEN Vecs(2, Toy)
                   ELSE IF j.n = 4 THEN {a \in Vecs(4, Toy) : a[3] \in {0, 1, 16} /\ a[4] \in {0, 5}}
                   ELSE {Basis(8, i) : i \in 1..8} \cup {[k \in 1..8 |-> (3 * k + 1) % Toy]}
             Bs == IF j.n = 2 THEN Vecs(2, Toy) ELSE {Basis(j.n, i) : i \in 1..j.n} \cup {[k \in 1..j.n |-> (k * k) % Toy]}
         IN \A a \in As, b \in Bs : CtxMul(c, a, b) = NegacyclicMul(a, b, Toy)
    [] j.kind = "eval" ->
         LET n == 2 ^ j.w  c == Ctx(P1, G1, n)
             \* powers of psi up to 2n-1
             pw == FoldRange(LAMBDA acc, i : Append(acc, (acc[Len(acc)] * c.psi) % P1), <<1>>, 1, 2 * n - 1)
         IN /\ PowM(c.psi, n, P1) = P1 - 1
            /\ \A i \in {ii \in 0..(n - 1) : ii % 4 = j.i} :
                 LET f == CtxFwd(c, Basis(n, i + 1))
                 IN \A k \in 0..(n - 1) : f[k + 1] = pw[(((2 * BitRev(k, j.w) + 1) * i) % (2 * n)) + 1]
    [] j.kind = "crt-product" ->
         LET c == Ctx(j.p, j.g, j.n)
             a == [k \in 1..j.n |-> (k * k * 31 + 7) % j.p]
             b == [k \in 1..j.n |-> (j.p - 1 - ((k * 17) % j.p))]
         IN CtxMul(c, a, b) = NegacyclicMul(a, b, j.p) /\ CtxInv(c, CtxFwd(c, a)) = a

\* fan-out in two levels so that TLC's workers share the jobs: root -> 16 shards -> jobs
JobSeq == SetToSeq(Jobs)
Init == job = [kind |-> "root"]
Next == \/ /\ job.kind = "root"
           /\ \E k \in 0..15 : job' = [kind |-> "shard", k |-> k]
        \/ /\ job.kind = "shard"
           /\ \E i \in 1..Len(JobSeq) : i % 16 = job.k /\ job' = JobSeq[i]
Spec == Init /\ [][Next]_vars
Theorems == job.kind \in {"root", "shard"} \/ Holds(job)
=====================================================================
