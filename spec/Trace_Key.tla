---------------------------- MODULE Trace_Key ----------------------------
(* Trace validation of generated keys against Ntru.tla (C04) and KeyCodec.tla (C05).                   *)
(*  {"ev":"key","n","seed","panic":false,"f","g","F","G","skb","pkb","sk_rt","sk_rt_bytes_equal",        *)
(*   "pk_rt","pk_rt_bytes_equal","leaves":[[4 words]..],"cands":[..],"tag"}   one generated key           *)
(*  {"ev":"keylight",.. maxima, lengths, round-trip flags ..}                  the same, summarised        *)
(*  {"ev":"sigrt","n","siglen","rt_equal"}                                     signature round trip        *)
(* The detail field lists the failed facts so that each property's check can read its own part.     *)
EXTENDS Ntru, TraceLib
VARIABLES l, bad
vars == <<l, bad>>

FailedOf(r) == {k \in DOMAIN r : ~r[k]}
Judge(e) ==
  LET P == ParamsOf(e.n) IN
  IF e.ev = "key" THEN
    IF e.panic THEN [ok |-> FALSE, branch |-> "keygen-panic", detail |-> {"panic"}]
    ELSE
    LET dpk == DecodePK(e.pkb, P)
        dsk == DecodeSK(e.skb, P)
        h == IF dpk.ok THEN dpk.h ELSE [i \in 1..P.n |-> 0]
        facts == KeyFactsT(e.f, e.g, e.F, e.G, h, e.leaves, e.tree_shape, e.leaf_second_zero, P)
        codec == [sk_bytes |-> EncodeSK(e.f, e.g, e.F, P) = e.skb,
                  sk_len |-> Len(e.skb) = P.sklen, pk_len |-> Len(e.pkb) = P.pklen,
                  pk_decodes |-> dpk.ok,
                  sk_decodes_to_original |-> dsk.ok /\ dsk.f = e.f /\ dsk.g = e.g /\ dsk.F = e.F,
                  sk_roundtrip |-> e.sk_rt = "ok-equal" /\ e.sk_rt_bytes_equal,
                  pk_roundtrip |-> e.pk_rt = "ok-equal" /\ e.pk_rt_bytes_equal,
                  last_candidate_accepted |-> Len(e.cands) >= 1 /\ e.cands[Len(e.cands)].verdict = 0
                                              /\ \A i \in 1..(Len(e.cands) - 1) : e.cands[i].verdict # 0,
                  \* the retry loop as a machine: every candidate (reconstructed from the generator stream) got an admissible verdict,
                  \* and the accepted one is the key
                  candidate_machine |-> Len(e.cand_polys) = 0 \/
                       (/\ Len(e.cand_polys) = Len(e.cands)
                        /\ \A i \in 1..Len(e.cands) : CandidateAdmissible(e.cand_polys[i].f, e.cand_polys[i].g, e.cands[i].verdict, e.cands[i].gamma, P)
                        /\ e.cand_polys[Len(e.cands)].f = e.f /\ e.cand_polys[Len(e.cands)].g = e.g)]
        \* keys constructed at the edge of the encodable range (tag edge-valid-key-*) are valid NTRU keys but not keygen outputs:
        \* only the NTRU equation, the public-key relation and the codec facts are demanded of them
        isEdge == Len(e.tag) >= 14 /\ SubSeq(e.tag, 1, 14) = "edge-valid-key"
        failed == IF isEdge THEN (FailedOf(facts) \cap {"ntru_eq", "f_invertible", "pk_relation", "representable"}) \cup (FailedOf(codec) \ {"last_candidate_accepted", "candidate_machine"})
                  ELSE FailedOf(facts) \cup FailedOf(codec)
    IN [ok |-> failed = {}, branch |-> IF failed = {} THEN "key-valid-n" \o ToString(e.n) ELSE "key-facts-failed", detail |-> failed]
  ELSE IF e.ev = "keylight" THEN
    IF e.panic THEN [ok |-> FALSE, branch |-> "keygen-panic", detail |-> {"panic"}]
    ELSE
    LET lim == 2 ^ (P.wfg - 1)
        r == [sk_len |-> e.sklen = P.sklen, pk_len |-> e.pklen = P.pklen,
              sk_roundtrip |-> e.sk_rt = "ok-equal" /\ e.sk_rt_bytes_equal,
              pk_roundtrip |-> e.pk_rt = "ok-equal" /\ e.pk_rt_bytes_equal,
              representable |-> e.maxf < lim /\ e.maxg < lim /\ e.maxF < 128 /\ e.maxG < 128]
        failed == FailedOf(r)
    IN [ok |-> failed = {}, branch |-> IF failed = {} THEN "keylight-ok" ELSE "keylight-failed", detail |-> failed]
  ELSE
    [ok |-> e.rt_equal /\ e.siglen = P.siglen, branch |-> "sig-roundtrip", detail |-> {}]

ASSUME TLCSet(2, Force([i \in 1..NRec |-> Judge(Rec[i])]))
Judged == TLCGet(2)
Init == l = 1 /\ bad = {}
Next == /\ l <= NRec
        /\ LET j == Judged[l] IN
             /\ PrintT(<<"VERDICT", l, IF j.ok THEN "ok" ELSE "MISMATCH", j.branch, j.detail>>)
             /\ bad' = IF j.ok THEN bad ELSE bad \cup {l}
        /\ l' = l + 1
        /\ (IF l < NRec THEN TRUE ELSE PrintT(<<"DONE", NRec, bad'>>))
Spec == Init /\ [][Next]_vars
TraceAccepted == TLCGet("stats").diameter = NRec + 1
=====================================================================
