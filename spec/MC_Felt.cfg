SPECIFICATION Spec
INVARIANTS Theorems AllConversions
CHECK_DEADLOCK FALSE
CONSTANTS Variant = "fixed" Stride = 1
