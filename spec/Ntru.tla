------------------------------ MODULE Ntru ------------------------------
(* What a Falcon key pair must satisfy (Falcon specification, Algorithm 5 and section 3.8):             *)
(*   f G - g F = q exactly over Z[x]/(x^n+1);  f invertible modulo q;  h f = g (mod q);                  *)
(*   ||(g,-f)||^2 <= 1.17^2 q (first half of the Gram-Schmidt norm test; 1.3689 * 12289 = 16822.4...);  *)
(*   every leaf of the normalised tree in [sigma_min, sigma_max] (equivalent to the second half);       *)
(*   coefficients inside the ranges of the fixed-width secret key format.                            *)
EXTENDS Crt, KeyCodec
GsBound == 16822
KeyFacts(f, g, F, G, h, leaves, P) ==
  LET n == P.n
      det == DetEquals(f, G, g, F, Q)
      c == Ctx(Q, G1, n)
      fn == CtxFwd(c, ReduceSeq(f, Q))
      hf == CtxMul(c, h, ReduceSeq(f, Q))
  IN [ntru_eq |-> det.bounded /\ det.holds,
      f_invertible |-> \A i \in 1..n : fn[i] # 0,
      pk_relation |-> hf = ReduceSeq(g, Q),
      gs_first |-> NormSq(f) + NormSq(g) <= GsBound,
      leaf_count |-> Len(leaves) = n,
      leaves_in_range |-> \A i \in 1..Len(leaves) : IsPositiveFinite(leaves[i]) /\ LeqWords(SigmaMinBitsOf(n), leaves[i]) /\ LeqWords(leaves[i], SigmaMaxBits),
      representable |-> Representable(f, g, F, P) /\ \A i \in 1..n : Fits(G[i], P.wF)]
=====================================================================
