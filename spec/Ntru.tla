------------------------------ MODULE Ntru ------------------------------
(* What a Falcon key pair must satisfy (Falcon specification, Algorithm 5 and section 3.8):             *)
(*   f G - g F = q exactly over Z[x]/(x^n+1);  f invertible modulo q;  h f = g (mod q);                  *)
(*   ||(g,-f)||^2 <= 1.17^2 q (first half of the Gram-Schmidt norm test; 1.3689 * 12289 = 16822.4...);  *)
(*   every leaf of the normalised tree in [sigma_min, sigma_max] (equivalent to the second half);       *)
(*   coefficients inside the ranges of the fixed-width secret key format.                            *)
EXTENDS Crt, KeyCodec
GsBound == 16822
\* pre-order shape of the signing tree (Algorithm 9, ffLDL): a branch carries a polynomial of the ring's current degree, its two
\* children live in the ring of half the degree; at degree 2 the children are leaves (written 0)
RECURSIVE TreeShape(_)
TreeShape(n) == IF n = 2 THEN <<2, 0, 0>> ELSE <<n>> \o TreeShape(n \div 2) \o TreeShape(n \div 2)
KeyFactsT(f, g, F, G, h, leaves, shape, leafzero, P) ==
  LET n == P.n
      det == DetEquals(f, G, g, F, Q)
      c == Ctx(Q, G1, n)
      fn == CtxFwd(c, ReduceSeq(f, Q))
      hf == CtxMul(c, h, ReduceSeq(f, Q))
  IN [ntru_eq |-> det.bounded /\ det.holds,
      f_invertible |-> \A i \in 1..n : fn[i] # 0,
      pk_relation |-> hf = ReduceSeq(g, Q),
      gs_first |-> NormSq(f) + NormSq(g) <= GsBound,
      leaf_count |-> Len(leaves) = n,
      tree_shape |-> shape = TreeShape(n) /\ leafzero,
      leaves_in_range |-> \A i \in 1..Len(leaves) : IsPositiveFinite(leaves[i]) /\ LeqWords(SigmaMinBitsOf(n), leaves[i]) /\ LeqWords(leaves[i], SigmaMaxBits),
      representable |-> Representable(f, g, F, P) /\ \A i \in 1..n : Fits(G[i], P.wF)]
\* The retry loop of key generation (Algorithm 5 as falcon-rust runs it) as a machine over candidates (f, g):
\*   range test (f, g encodable) -> invertibility of f mod q -> Gram-Schmidt bound -> NTRUSolve -> range test (F, G) -> accept.
\* verdict codes of the tap: 0 accepted, 1 f not invertible, 2 Gram-Schmidt, 3 solver failed, 4 f or g out of range, 5 F or G out of range.
\* What TLC can decide about one candidate from (f, g) alone: the verdict the machine MUST give, or "open" where the decision
\* depends on floating-point or solver internals (then the recorded verdict must be one of the admissible ones).
CandidateAdmissible(f, g, verdict, gammaBits, P) ==
  LET n == P.n
      lim == 2 ^ (P.wfg - 1)
      inRange == \A i \in 1..n : Abs(f[i]) < lim /\ Abs(g[i]) < lim
      c == Ctx(Q, G1, n)
      fn == CtxFwd(c, ReduceSeq(f, Q))
      invertible == \A i \in 1..n : fn[i] # 0
      firstNorm == NormSq(f) + NormSq(g)
      \* 1.3689 * 12289 = 16822.4121 as a double
      boundBits == <<16592, 28058, 24536, 44460>>
  IN IF ~inRange THEN verdict = 4
     ELSE IF ~invertible THEN verdict = 1
     ELSE IF firstNorm > GsBound THEN verdict = 2
     ELSE IF verdict = 2 THEN LeqWords(boundBits, gammaBits) /\ gammaBits # boundBits     \* the second Gram-Schmidt quantity decided (float)
     ELSE verdict \in {0, 3, 5} /\ LeqWords(gammaBits, boundBits)
KeyFacts(f, g, F, G, h, leaves, P) == KeyFactsT(f, g, F, G, h, leaves, TreeShape(P.n), TRUE, P)
=====================================================================
