-------------------------- MODULE Trace_Verify --------------------------
(* Trace validation of recorded verify / from_bytes calls against Verify.tla.                      *)
(* Events (one JSON object per line, file named by the environment variable TRACE):               *)
(*   {"ev":"verify","n":512|1024,"msg":[..],"sig":[..],"pk":[..],                                   *)
(*    "sig_ok":bool,"pk_ok":bool,"res":"true"|"false"|"panic"|"na","tag":"..."}                     *)
(* sig_ok / pk_ok are the outcomes of Signature::from_bytes / PublicKey::from_bytes; res is the    *)
(* outcome of verify when both decoded ("na" otherwise).  TLC recomputes everything from the      *)
(* bytes.  An event conforms iff the code ACCEPTS the triple (both decode and verify = true) exactly *)
(* when the specification does; a panic never conforms.  Non-conforming events are collected in     *)
(* `bad` (the trace is accepted iff bad = {} at the end); every event prints a VERDICT line.      *)
(* Events with "honest":true were produced by sign() itself under the matching key: for them the   *)
(* specification's verdict must moreover be TRUE (C01: Completeness).                             *)
EXTENDS Verify, TraceLib
VARIABLES l, bad, tally
vars == <<l, bad, tally>>

Judge(e) ==
  LET P == ParamsOf(e.n)
      ds == DecodeSig(e.sig, P)  dp == DecodePK(e.pk, P)
      r == IF ds.ok /\ dp.ok THEN VerifyParts(e.msg, ds.salt, ds.body, dp.h, P)
           ELSE [accept |-> FALSE, branch |-> IF ~ds.ok THEN "undecodable-sig-" \o ds.why ELSE "undecodable-pk-" \o dp.why, norm |-> -1]
      \* C02 is a statement about ACCEPTANCE: the triple is accepted by the code (both objects decode and verify returns true)
      \* exactly when the specification accepts it.  Where a decoder draws the line between "undecodable" and "decodable but
      \* rejected by verify" is not part of it (a from_bytes that also validates the compressed body is conforming); the
      \* decoders' own contracts are C05 / C06 (Trace_Decode).  A panic never conforms.
      specAccept == ds.ok /\ dp.ok /\ r.accept
      codeAccept == e.res = "true"
      expect == IF specAccept THEN "true" ELSE IF ds.ok /\ dp.ok THEN "false" ELSE "na"
  IN [ok |-> e.res # "panic" /\ codeAccept = specAccept /\ (e.honest => specAccept),
      branch |-> r.branch, norm |-> r.norm, expect |-> expect, sig_ok |-> ds.ok, pk_ok |-> dp.ok]

\* TLC evaluates this constant once, outside the action context (where it would not cache LET values)
ASSUME TLCSet(2, Force([i \in 1..NRec |-> Judge(Rec[i])]))
Judged == TLCGet(2)

Init == l = 1 /\ bad = {} /\ tally = <<>>
Next == /\ l <= NRec
        /\ LET j == Judged[l] IN
             /\ PrintT(<<"VERDICT", l, IF j.ok THEN "ok" ELSE "MISMATCH", j.branch, j.norm,
                         "spec", j.expect, j.sig_ok, j.pk_ok, "code", Rec[l].res, Rec[l].sig_ok, Rec[l].pk_ok>>)
             /\ bad' = IF j.ok THEN bad ELSE bad \cup {l}
             /\ tally' = Append(tally, j.branch)
        /\ l' = l + 1
        /\ (IF l < NRec THEN TRUE ELSE PrintT(<<"DONE", NRec, bad'>>))
Spec == Init /\ [][Next]_vars
\* every conforming prefix keeps bad empty; reported through the DONE line and this invariant's twin in the runner
TraceAccepted == TLCGet("stats").diameter = NRec + 1
=====================================================================
