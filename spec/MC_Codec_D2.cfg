SPECIFICATION Spec
INVARIANT Theorems
CHECK_DEADLOCK FALSE
CONSTANTS L = 2 NMax = 2 HM = 2 Variant = "prefix-D2" FirstBytes <- AllBytes
