---------------------------- MODULE KeyCodec ----------------------------
(* The key and signature encodings of section 3.11 of the Falcon specification, parametrised by   *)
(* a parameter record P (Params.tla; toy formats for the exhaustive configs have the same shape). *)
(*   public key : header 0000 logn | n fields of P.wpk bits, big-endian, each < q                 *)
(*   secret key : header 0101 logn | f (wfg bits each) | g (wfg) | F (wF), two's complement,      *)
(*                the pattern 10...0 (the minimum value) is reserved                              *)
(*   signature  : header | 40-byte salt | compressed s2 padded to the fixed length                *)
(* Decoders return [ok, ..., why]; a decoder accepts exactly the image of its encoder (Strict).  *)
EXTENDS Codec

\* ---------------- public key
EncodePK(h, P) ==
  <<P.logn>> \o BytesOfBits(FoldLeft(LAMBDA acc, c : acc \o BitsOfInt(c, P.wpk), <<>>, h))
DecodePK(b, P) ==
  IF Len(b) # P.pklen THEN [ok |-> FALSE, why |-> "length", h |-> <<>>]
  ELSE IF b[1] # P.logn THEN [ok |-> FALSE, why |-> "header", h |-> <<>>]
  ELSE LET bits == BitArr(b)
           h == Arr(P.n, LAMBDA i : FieldB(bits, 8 + P.wpk * (i - 1), P.wpk))
       IN IF \E i \in 1..P.n : h[i] >= P.q THEN [ok |-> FALSE, why |-> "field-range", h |-> <<>>]
          ELSE [ok |-> TRUE, why |-> "ok", h |-> h]

\* ---------------- secret key
Fits(v, w) == -(2 ^ (w - 1)) < v /\ v < 2 ^ (w - 1)
Representable(f, g, F, P) ==
  /\ \A i \in 1..Len(f) : Fits(f[i], P.wfg)
  /\ \A i \in 1..Len(g) : Fits(g[i], P.wfg)
  /\ \A i \in 1..Len(F) : Fits(F[i], P.wF)
EncodeSK(f, g, F, P) ==
  LET enc(poly, w) == FoldLeft(LAMBDA acc, c : acc \o BitsOfInt(ToTwos(c, w), w), <<>>, poly)
  IN <<80 + P.logn>> \o BytesOfBits(enc(f, P.wfg) \o enc(g, P.wfg) \o enc(F, P.wF))
DecodeSK(b, P) ==
  LET bad(why) == [ok |-> FALSE, why |-> why, f |-> <<>>, g |-> <<>>, F |-> <<>>] IN
  IF Len(b) # P.sklen THEN bad("length")
  ELSE IF b[1] # 80 + P.logn THEN bad("header")
  ELSE LET bits == BitArr(b)
           fld(start, w, i) == FieldB(bits, start + w * (i - 1), w)
           uf == Arr(P.n, LAMBDA i : fld(8, P.wfg, i))
           ug == Arr(P.n, LAMBDA i : fld(8 + P.n * P.wfg, P.wfg, i))
           uF == Arr(P.n, LAMBDA i : fld(8 + 2 * P.n * P.wfg, P.wF, i))
       IN IF (\E i \in 1..P.n : uf[i] = 2 ^ (P.wfg - 1) \/ ug[i] = 2 ^ (P.wfg - 1) \/ uF[i] = 2 ^ (P.wF - 1))
          THEN bad("reserved-field")
          ELSE [ok |-> TRUE, why |-> "ok",
                f |-> Arr(P.n, LAMBDA i : FromTwos(uf[i], P.wfg)),
                g |-> Arr(P.n, LAMBDA i : FromTwos(ug[i], P.wfg)),
                F |-> Arr(P.n, LAMBDA i : FromTwos(uF[i], P.wF))]

\* ---------------- signature framing (the body is judged by Codec!SpecDecompress at verification)
EncodeSig(salt, body, P) == <<P.sighdr>> \o salt \o body
DecodeSigL(b, P, sl) ==
  IF Len(b) # P.siglen THEN [ok |-> FALSE, why |-> "length", salt |-> <<>>, body |-> <<>>]
  ELSE IF b[1] # P.sighdr THEN [ok |-> FALSE, why |-> "header", salt |-> <<>>, body |-> <<>>]
  ELSE [ok |-> TRUE, why |-> "ok", salt |-> SubSeq(b, 2, 1 + sl), body |-> SubSeq(b, 2 + sl, Len(b))]
DecodeSig(b, P) == DecodeSigL(b, P, SaltLen)
=====================================================================
