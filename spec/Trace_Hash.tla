---------------------------- MODULE Trace_Hash ----------------------------
(* Trace validation of the real hash_to_point against HashToPoint.tla + Keccak.tla: the whole function  *)
(* (SHAKE-256, big-endian 16-bit chunks, rejection of t >= 61445, reduction mod q) is recomputed by TLC   *)
(* from the input string alone.  {"ev":"h2p","str":[bytes],"out512":[..],"out1024":[..],"tag":..}       *)
(* Demanded: both outputs equal the specification's; all coefficients in [0,q); the Falcon-512 point is  *)
(* the first half of the Falcon-1024 point.  The branch reports what the consumed stream contained.    *)
EXTENDS HashToPoint, TraceLib
VARIABLES l, bad
vars == <<l, bad>>
Judge(e) ==
  LET stream == Shake256Blocks(e.str, 2 * InitialBlocks(1024))
      want1024 == RunOnStream(stream, 1024)
      want512 == RunOnStream(stream, 512)
      use == Consumed(stream, 1024)
      ok == /\ Len(want1024) = 1024
            /\ TRUE
            /\ e.out1024 = want1024 /\ e.out512 = want512
            /\ e.out512 = SubSeq(e.out1024, 1, 512)
            /\ \A i \in 1..1024 : want1024[i] >= 0 /\ want1024[i] < Q
  IN [ok |-> ok, branch |-> e.tag, detail |-> <<"rejected", use.rej, "bytes-consumed", use.used>>]
ASSUME TLCSet(2, Force([i \in 1..NRec |-> Judge(Rec[i])]))
Judged == TLCGet(2)
Init == l = 1 /\ bad = {}
Next == /\ l <= NRec
        /\ LET j == Judged[l] IN
             /\ PrintT(<<"VERDICT", l, IF j.ok THEN "ok" ELSE "MISMATCH", j.branch, j.detail>>)
             /\ bad' = IF j.ok THEN bad ELSE bad \cup {l}
        /\ l' = l + 1
        /\ (IF l < NRec THEN TRUE ELSE PrintT(<<"DONE", NRec, bad'>>))
Spec == Init /\ [][Next]_vars
TraceAccepted == TLCGet("stats").diameter = NRec + 1
=====================================================================
