SPECIFICATION Spec
CHECK_DEADLOCK FALSE
CONSTANTS
  Threads = {t1}
  Seeds = {1, 2, 3, 4}
  Msgs = {0, 1, 2}
  MaxCalls = 1
  MaxRetry = 0
  ZChoices <- ZWide
  ZPolicy = "short+long"
  Variant = "strict-verify"
  PreKeys = TRUE
INVARIANTS TypeOK Completeness
PROPERTIES 
