---------------------------- MODULE TraceLib ----------------------------
(* Shared plumbing of the trace specifications.  The recorded trace (ndjson file named by the       *)
(* environment variable TRACE) is read ONCE, by an ASSUME evaluated at start-up, into TLC register 1; *)
(* the per-event judgments of a trace spec go to register 2 the same way.  (Measured: a definition    *)
(* `Rec == ndJsonDeserialize(IOEnv.TRACE)` is re-evaluated -- the file re-parsed -- at every reference  *)
(* from an action, and LET values are not cached in action context; registers avoid both.)          *)
(* Trace validation runs with -workers 1.                                                          *)
EXTENDS Util, Json, IOUtils
ASSUME TLCSet(1, ndJsonDeserialize(IOEnv.TRACE))
Rec == TLCGet(1)
NRec == Len(Rec)
=====================================================================
