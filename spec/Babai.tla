------------------------------ MODULE Babai ------------------------------
(* Postconditions of Babai size reduction (Algorithm 7, Reduce) as relations over Z[x]/(x^n+1), evaluated     *)
(* exactly by residues modulo the three NTT primes plus a magnitude bound computed from the data (BigNat).     *)
(*   Invariant  : f G' - g F' = f G - g F                                                                  *)
(*   Multiple   : F - F' = k f  and  G - G' = k g  for one integer polynomial k (reconstructed by two-prime     *)
(*                CRT from (F - F') / f, then verified modulo all three primes)                             *)
(*   Idempotent : reducing the result again changes nothing                                               *)
(*   Agreement  : the 32-bit multi-modular and the big-integer implementation return identical results       *)
EXTENDS Crt, BigNat
P123 == BMul(BMul(BFromSmall(P1), BFromSmall(P2)), BFromSmall(P3))
\* is 2 * n * (a * b + c * d) below P1 P2 P3 ?  (a, b, c, d: maxima of absolute values)
BoundOK(n, a, b, c, d) ==
  BLt(BShl(BMul(BFromSmall(n), BAdd(BMul(BFromSmall(a), BFromSmall(b)), BMul(BFromSmall(c), BFromSmall(d)))), 2), P123)
Primes == <<<<P1, G1>>, <<P2, G2>>, <<P3, G3>>>>
\* f*Y - g*X computed modulo p
DetMod(f, g, X, Y, p, gen) == PolySub(MulModP(f, Y, p, gen), MulModP(g, X, p, gen), p)
DetInvariant(f, g, F, G, Fr, Gr) ==
  /\ BoundOK(Len(f), MaxAbs(f), MaxAbs(G) + MaxAbs(Gr), MaxAbs(g), MaxAbs(F) + MaxAbs(Fr))
  /\ \A i \in 1..3 : DetMod(f, g, F, G, Primes[i][1], Primes[i][2]) = DetMod(f, g, Fr, Gr, Primes[i][1], Primes[i][2])
\* quotient d / f in Z_p[x]/(x^n+1), if f is invertible there: [ok, q]
DivMod(d, f, p, gen) ==
  LET n == Len(f)  c == Ctx(p, gen, n)
      fn == CtxFwd(c, ReduceSeq(f, p))  dn == CtxFwd(c, ReduceSeq(d, p))
  IN IF \E i \in 1..n : fn[i] = 0 THEN [ok |-> FALSE, q |-> <<>>]
     ELSE [ok |-> TRUE, q |-> CtxInv(c, Arr(n, LAMBDA i : (dn[i] * InvM(fn[i], p)) % p))]
\* CRT of residues modulo P2 and P3 into the balanced range
P23 == P2 * P3
InvP2modP3 == InvM(P2 % P3, P3)
Crt23(a2, a3) == LET t == ((((a3 - a2) % P3) * InvP2modP3) % P3)  x == a2 + P2 * t
                 IN IF x > P23 \div 2 THEN x - P23 ELSE x
\* [decided, holds, kmax]: decided = FALSE when f is not invertible modulo P2 or P3 (then only DetInvariant speaks)
MultipleOf(f, g, dF, dG) ==
  LET n == Len(f)
      q2 == DivMod(dF, f, P2, G2)  q3 == DivMod(dF, f, P3, G3)
  IN IF ~q2.ok \/ ~q3.ok THEN [decided |-> FALSE, holds |-> TRUE, kmax |-> 0]
     ELSE LET k == Arr(n, LAMBDA i : Crt23(q2.q[i], q3.q[i]))
              bnd == BoundOK(n, MaxAbs(k), MaxAbs(f) + MaxAbs(g), 1, MaxAbs(dF) + MaxAbs(dG))
              okp(p, gen) == MulModP(k, f, p, gen) = ReduceSeq(dF, p) /\ MulModP(k, g, p, gen) = ReduceSeq(dG, p)
          \* when the magnitudes do not let the reconstruction speak for the integers, the multiple is not decided here
          \* (DetInvariant, exact over Z, still is); callers must not use this for inputs whose true quotient may exceed P2*P3/2
          IN IF bnd THEN [decided |-> TRUE, holds |-> \A i \in 1..3 : okp(Primes[i][1], Primes[i][2]), kmax |-> MaxAbs(k)]
                    ELSE [decided |-> FALSE, holds |-> TRUE, kmax |-> MaxAbs(k)]
=====================================================================
