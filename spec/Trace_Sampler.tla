-------------------------- MODULE Trace_Sampler --------------------------
(* Trace validation of the real sampler and its building blocks (hook wrappers, caller-supplied byte       *)
(* source) against SamplerZ.tla.                                                                       *)
(*  {"ev":"base","bytes":[9],"res":z0,"panic"}                BaseSampler: exact                            *)
(*  {"ev":"approxexp","x":[4w],"ccs":[4w],"res":[4w],"panic"} ApproxExp: exact 64-bit result                *)
(*  {"ev":"berexp","x","ccs","bytes":[7],"res":bool,"panic"}  BerExp: exact verdict                         *)
(*  {"ev":"samplerz","mu","sigma","sigmin","bytes":[consumed bytes],"consumed","exhausted","res","panic"}    *)
(*        the loop: TLC runs the machine on the recorded bytes and demands the value of the first            *)
(*        accepting iteration and the exact number of bytes consumed; if the scripted prefix never accepts   *)
(*        ("exhausted") the call must have consumed all of it without panicking.                           *)
(*  {"ev":"genpoly","n","bytes":[consumed],"consumed","exhausted","out":[n ints],"panic"}                          *)
(*        key generation's gen_poly: n sums of 4096/n consecutive sampler outputs on one stream (SpecGenPoly)        *)
(* A panic never conforms (totality).                                                                 *)
EXTENDS SamplerZ, TraceLib
VARIABLES l, bad
vars == <<l, bad>>
Judge(e) ==
  IF e.panic THEN [ok |-> FALSE, branch |-> e.ev \o "-panic", detail |-> <<>>]
  ELSE IF e.ev = "base" THEN
    LET z0 == SpecBase(e.bytes) IN [ok |-> e.res = z0, branch |-> "base-" \o ToString(z0), detail |-> <<z0>>]
  ELSE IF e.ev = "approxexp" THEN
    LET a == SpecApproxExp(FFromWords(e.x), FFromWords(e.ccs))  w == BToWords4(a.y)
    IN [ok |-> a.ok /\ e.res = w, branch |-> "approxexp", detail |-> <<w>>]
  ELSE IF e.ev = "berexp" THEN
    LET b == SpecBerExp(FFromWords(e.x), FFromWords(e.ccs), e.bytes)
    IN [ok |-> b.ok /\ e.res = b.res, branch |-> "berexp-s" \o ToString(IF b.s > 64 THEN 65 ELSE b.s) \o (IF b.res THEN "-T" ELSE "-F"), detail |-> <<b.res, b.s, b.z>>]
  ELSE IF e.ev = "genpoly" THEN
    LET r == SpecGenPoly(e.n, e.bytes)
        ok == ~e.exhausted /\ r.ok /\ r.done /\ e.out = r.out /\ e.consumed = r.used /\ Len(e.bytes) = r.used
    IN [ok |-> ok, branch |-> "genpoly-n" \o ToString(e.n), detail |-> <<r.done, r.used, Len(r.out)>>]
  ELSE
    LET r == SpecSamplerZ(FFromWords(e.mu), FFromWords(e.sigma), FFromWords(e.sigmin), e.bytes)
        ok == IF e.exhausted THEN ~r.done /\ r.ok      \* the prefix never accepts: the code kept drawing, as specified
              ELSE r.ok /\ r.done /\ e.res = r.value /\ e.consumed = r.used /\ Len(e.bytes) = r.used
    IN [ok |-> ok, branch |-> IF e.exhausted THEN "samplerz-exhausted" ELSE "samplerz-iters" \o ToString(IF r.iters > 6 THEN 7 ELSE r.iters),
        detail |-> <<r.done, r.value, r.iters, r.used>>]
ASSUME TLCSet(2, Force([i \in 1..NRec |-> Judge(Rec[i])]))
Judged == TLCGet(2)
Init == l = 1 /\ bad = {}
Next == /\ l <= NRec
        /\ LET j == Judged[l] IN
             /\ PrintT(<<"VERDICT", l, IF j.ok THEN "ok" ELSE "MISMATCH", j.branch, j.detail>>)
             /\ bad' = IF j.ok THEN bad ELSE bad \cup {l}
        /\ l' = l + 1
        /\ (IF l < NRec THEN TRUE ELSE PrintT(<<"DONE", NRec, bad'>>))
Spec == Init /\ [][Next]_vars
TraceAccepted == TLCGet("stats").diameter = NRec + 1
=====================================================================
