SPECIFICATION Spec
CHECK_DEADLOCK FALSE
CONSTANTS
  Threads = {t1}
  Seeds = {1}
  Msgs = {0, 1}
  MaxCalls = 1
  MaxRetry = 1
  ZChoices <- ZWide
  ZPolicy = "short+long"
  Variant = "code"
  PreKeys = FALSE
INVARIANTS TypeOK NeverIssued
PROPERTIES 
