----------------------------- MODULE BigNat -----------------------------
(* Natural numbers of arbitrary size for TLC (whose integers are 32-bit): little-endian sequences of      *)
(* 15-bit limbs, canonical (no trailing zero limb; zero is the empty sequence).  Used for the 72-bit      *)
(* sampler table, the 63-bit fixed point / 128-bit products of ApproxExp, and IEEE-754 mantissa            *)
(* arithmetic in F64.tla.  MC_BigNat checks the operations against TLC's native integers where both      *)
(* apply and against algebraic identities beyond.                                                     *)
EXTENDS Util
LB == 32768
BNorm(a) == LET nz == {i \in 1..Len(a) : a[i] # 0} IN IF nz = {} THEN <<>> ELSE SubSeq(a, 1, Max(nz))
BFromSmall(v) == BNorm(<<v % LB, (v \div LB) % LB, v \div (LB * LB)>>)      \* 0 <= v < 2^31
BLimb(a, i) == IF i >= 1 /\ i <= Len(a) THEN a[i] ELSE 0
BIsZero(a) == a = <<>>
BToSmall(a) == BLimb(a, 1) + LB * BLimb(a, 2) + LB * LB * BLimb(a, 3)          \* only for a < 2^31
BAdd(a, b) ==
  LET n == (IF Len(a) > Len(b) THEN Len(a) ELSE Len(b)) + 1
      r == FoldRange(LAMBDA acc, i : LET t == BLimb(a, i) + BLimb(b, i) + acc.c IN [d |-> Append(acc.d, t % LB), c |-> t \div LB],
                     [d |-> <<>>, c |-> 0], 1, n)
  IN BNorm(r.d)
\* a - b for a >= b
BSub(a, b) ==
  LET r == FoldRange(LAMBDA acc, i : LET t == BLimb(a, i) - BLimb(b, i) - acc.c IN
                       IF t < 0 THEN [d |-> Append(acc.d, t + LB), c |-> 1] ELSE [d |-> Append(acc.d, t), c |-> 0],
                     [d |-> <<>>, c |-> 0], 1, Len(a))
  IN BNorm(r.d)
BMul(a, b) ==
  IF a = <<>> \/ b = <<>> THEN <<>> ELSE
  LET n == Len(a) + Len(b)
      zero == [k \in 1..n |-> 0]
      row(res, i) ==
        LET r == FoldRange(LAMBDA acc, j : LET t == acc.res[i + j - 1] + a[i] * b[j] + acc.c IN
                             [res |-> [acc.res EXCEPT ![i + j - 1] = t % LB], c |-> t \div LB],
                           [res |-> res, c |-> 0], 1, Len(b))
        IN [r.res EXCEPT ![i + Len(b)] = @ + r.c]
  IN BNorm(FoldRange(row, zero, 1, Len(a)))
BShr(a, k) ==
  LET q == k \div 15  s == k % 15
      dropped == IF q >= Len(a) THEN <<>> ELSE SubSeq(a, q + 1, Len(a))
      p == 2 ^ s  hi == 2 ^ (15 - s)
  IN IF s = 0 THEN dropped
     ELSE BNorm([i \in 1..Len(dropped) |-> (dropped[i] \div p) + ((BLimb(dropped, i + 1) % p) * hi)])
BShl(a, k) ==
  LET q == k \div 15  s == k % 15
      m == IF s = 0 THEN a ELSE BMul(a, BFromSmall(2 ^ s))
  IN IF m = <<>> THEN <<>> ELSE [i \in 1..q |-> 0] \o m
\* -1, 0, 1
BCmp(a, b) ==
  IF Len(a) # Len(b) THEN (IF Len(a) < Len(b) THEN -1 ELSE 1)
  ELSE LET d == {i \in 1..Len(a) : a[i] # b[i]} IN
       IF d = {} THEN 0 ELSE (IF a[Max(d)] < b[Max(d)] THEN -1 ELSE 1)
BLt(a, b) == BCmp(a, b) = -1
BLe(a, b) == BCmp(a, b) <= 0
\* number of bits: 0 for zero
BBitLen(a) == IF a = <<>> THEN 0 ELSE 15 * (Len(a) - 1) + (CHOOSE k \in 1..15 : 2 ^ (k - 1) <= a[Len(a)] /\ a[Len(a)] < 2 ^ k)
BBit(a, i) == (BLimb(a, (i \div 15) + 1) \div (2 ^ (i % 15))) % 2        \* bit i, 0-based from the least significant
BIsOdd(a) == BLimb(a, 1) % 2 = 1
\* a mod 2^k
BLow(a, k) ==
  LET q == k \div 15  s == k % 15
  IN BNorm([i \in 1..(q + 1) |-> IF i <= q THEN BLimb(a, i) ELSE BLimb(a, i) % (2 ^ s)])
\* big-endian 16-bit words / bytes
BFromWords(w) == FoldLeft(LAMBDA acc, x : BAdd(BShl(acc, 16), BFromSmall(x)), <<>>, w)
BFromBytes(b) == FoldLeft(LAMBDA acc, x : BAdd(BShl(acc, 8), BFromSmall(x)), <<>>, b)
\* the 64-bit value a as four 16-bit words, most significant first
BToWords4(a) ==
  LET wd(k) == LET r == BShr(a, 16 * k) IN BLimb(r, 1) + (BLimb(r, 2) % 2) * LB
  IN <<wd(3), wd(2), wd(1), wd(0)>>
\* floor(a / b) and a mod b by restoring binary long division (b # 0)
BDivMod(a, b) ==
  LET n == BBitLen(a)
      r == FoldRange(LAMBDA acc, k :
                       LET i == n - k                          \* bit index, from the top
                           rem2 == BAdd(BShl(acc.r, 1), BFromSmall(BBit(a, i)))
                       IN IF BLe(b, rem2) THEN [q |-> BAdd(BShl(acc.q, 1), <<1>>), r |-> BSub(rem2, b)]
                          ELSE [q |-> BShl(acc.q, 1), r |-> rem2],
                     [q |-> <<>>, r |-> <<>>], 1, n)
  IN r
=====================================================================
