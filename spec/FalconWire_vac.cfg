SPECIFICATION Spec
CHECK_DEADLOCK FALSE
CONSTANTS S2Box <- MCS2Box
          Salts = {0, 7, 255}
          MaxItems = 2
INVARIANTS SomeTamperedAccepted
