---------------------------- MODULE ImplCodec ----------------------------
(* An implementation-shaped model of falcon-rust's `decompress` (encoding.rs): the same loop       *)
(* structure -- n-1 ordinary rounds and a special last round -- the same guards, and Rust's         *)
(* integer types made explicit: an `i16` operation whose mathematical result leaves the type is     *)
(* the outcome "panic-overflow" (overflow checks on), an index outside its buffer is "panic-index". *)
(* It exists to (a) state totality as a model property (`panic` unreachable), (b) be compared with  *)
(* the mathematical definition Codec!SpecDecompress on all short inputs (MC_Codec), and (c) derive   *)
(* which input families reach each branch of the real routine.  It is not an oracle for the code.   *)
EXTENDS Codec

I16Min == -32768
I16Max == 32767
InI16(v) == I16Min <= v /\ v <= I16Max

\* state: [st |-> "run"|"none"|"some"|"panic-index"|"panic-overflow", idx, v, abort]
\* read 7 low bits the way the code does: two byte reads, shifts in i16
LowBits(x, index, lastRound) ==
  LET d == index \div 8  m == index % 8  len == Len(x) IN
  IF d + 1 > len THEN [k |-> "panic-index", low |-> 0]
  ELSE LET b0 == x[d + 1]
           first == (b0 * (2 ^ m))                       \* (x[d] as i16) << m : fits, b0 < 256, m < 8
       IN IF lastRound
          THEN IF m # 0 /\ d + 1 < len
                 THEN [k |-> "ok", low |-> (((first + (x[d + 2] \div (2 ^ (8 - m)))) % 256) \div 2)]
               ELSE IF m # 0 THEN [k |-> "none", low |-> 0]
               ELSE [k |-> "ok", low |-> ((first % 256) \div 2)]
          ELSE IF d + 2 > len THEN [k |-> "panic-index", low |-> 0]
               ELSE [k |-> "ok", low |-> (((first + (x[d + 2] \div (2 ^ (8 - m)))) % 256) \div 2)]

\* note: (a << m) | (b >> (8-m)) with disjoint bit ranges after masking is a sum; the code masks with 255
\* after the OR, so overlapping high bits of `first` are discarded by % 256 either way.

Terminal(s) == s.st # "run"

OrdinaryRound(s, x, bits, hm, guard) ==
  LET nbits == 8 * Len(x) IN
  IF Terminal(s) THEN s
  ELSE IF s.idx + guard >= nbits THEN [s EXCEPT !.st = "none"]
  ELSE LET sgn == bits[s.idx + 1]
           lb == LowBits(x, s.idx + 1, FALSE)
       IN IF lb.k = "panic-index" THEN [s EXCEPT !.st = "panic-index"]
          ELSE LET start == s.idx + 8
                   \* scan: while !bit[index] { index++; high++; if high == hm || index + 1 == nbits {return None} }
                   scan == FoldRange(LAMBDA a, j :
                              IF a.done THEN a
                              ELSE IF a.index >= nbits THEN [a EXCEPT !.done = TRUE, !.k = "panic-index"]
                              ELSE IF bits[a.index + 1] = 1 THEN [a EXCEPT !.done = TRUE, !.k = "ok"]
                              ELSE IF a.high + 1 = hm \/ a.index + 2 = nbits THEN [a EXCEPT !.done = TRUE, !.k = "none"]
                              ELSE [a EXCEPT !.index = @ + 1, !.high = @ + 1],
                            [done |-> FALSE, k |-> "ok", index |-> start, high |-> 0], 0, hm + 1)
               IN IF scan.k = "panic-index" THEN [s EXCEPT !.st = "panic-index"]
                  ELSE IF scan.k = "none" THEN [s EXCEPT !.st = "none"]
                  ELSE LET mag == scan.high * 128 + lb.low
                           val == IF sgn = 1 THEN -mag ELSE mag
                       IN IF ~InI16(scan.high * 128) \/ ~InI16(val) THEN [s EXCEPT !.st = "panic-overflow"]
                          ELSE [st |-> "run", idx |-> scan.index + 1, v |-> Append(s.v, val),
                                abort |-> s.abort \/ (lb.low = 0 /\ scan.high = 0 /\ sgn = 1)]

\* bounded: if hm is TRUE the last round has the `high_bits == hm` bound (after fix 08c1643)
LastRound(s, x, bits, hm, bounded) ==
  LET nbits == 8 * Len(x) IN
  IF Terminal(s) THEN s
  ELSE IF s.idx + 8 >= nbits THEN [s EXCEPT !.st = "none"]
  ELSE LET sgn == bits[s.idx + 1]
           lb == LowBits(x, s.idx + 1, TRUE)
       IN IF lb.k = "panic-index" THEN [s EXCEPT !.st = "panic-index"]
          ELSE IF lb.k = "none" THEN [s EXCEPT !.st = "none"]
          ELSE LET start == s.idx + 8
                   maxrun == nbits     \* the unbounded variant may scan to the end of the buffer
                   scan == IF start = nbits THEN [done |-> TRUE, k |-> "none", index |-> start, high |-> 0]
                           ELSE FoldRange(LAMBDA a, j :
                              IF a.done THEN a
                              ELSE IF bits[a.index + 1] = 1 THEN [a EXCEPT !.done = TRUE, !.k = "ok"]
                              ELSE IF a.index + 1 = nbits THEN [a EXCEPT !.done = TRUE, !.k = "none"]
                              ELSE IF bounded /\ a.high + 1 = hm THEN [a EXCEPT !.done = TRUE, !.k = "none"]
                              ELSE [a EXCEPT !.index = @ + 1, !.high = @ + 1],
                            [done |-> FALSE, k |-> "ok", index |-> start, high |-> 0], 0, maxrun)
               IN IF scan.k = "none" THEN [s EXCEPT !.st = "none"]
                  ELSE IF s.abort \/ (lb.low = 0 /\ scan.high = 0 /\ sgn = 1) THEN [s EXCEPT !.st = "none"]
                  ELSE LET hi == scan.high * 128
                           \* (high_bits << 7) wraps silently in i16 (shl does not check the value)
                           hiw == ((hi + 32768) % 65536) - 32768
                           \* bit-or of hiw and low: low < 128 and hiw is a multiple of 128
                           comb == hiw + lb.low
                           val == IF sgn = 1 THEN -comb ELSE comb
                       IN IF ~InI16(val) THEN [s EXCEPT !.st = "panic-overflow"]
                          ELSE LET idx2 == scan.index + 1
                                   padok == \A j \in idx2..(nbits - 1) : bits[j + 1] = 0
                               IN IF padok THEN [st |-> "some", idx |-> idx2, v |-> Append(s.v, val), abort |-> FALSE]
                                  ELSE [s EXCEPT !.st = "none"]

\* guard = 9 after fix 3f9e11b (8 before); bounded = TRUE after fix 08c1643
ImplDecompressV(x, n, hm, guard, bounded) ==
  LET bits == BitArr(x)
      s0 == [st |-> "run", idx |-> 0, v |-> <<>>, abort |-> FALSE]
      s1 == FoldRange(LAMBDA s, i : OrdinaryRound(s, x, bits, hm, guard), s0, 1, n - 1)
  IN LastRound(s1, x, bits, hm, bounded)
ImplDecompress(x, n, hm) == ImplDecompressV(x, n, hm, 9, TRUE)
=====================================================================
