----------------------------- MODULE Bits -----------------------------
(* Byte strings as bit strings, big-endian within a byte (bit 0 of the string is the most          *)
(* significant bit of the first byte), as the Falcon encodings of section 3.11 use them.           *)
EXTENDS Util
\* bit i (0-based) of byte string x
Bit(x, i) == (x[(i \div 8) + 1] \div (2 ^ (7 - (i % 8)))) % 2
\* all bits of x as a forced 1-based array: BitArr(x)[i+1] = Bit(x,i)
BitArr(x) == Arr(8 * Len(x), LAMBDA i : Bit(x, i - 1))
\* unsigned big-endian field of w bits starting at bit `start` (0-based) of a bit array
FieldB(bits, start, w) == FoldRange(LAMBDA acc, j : 2 * acc + bits[start + j + 1], 0, 0, w - 1)
Field(x, start, w) == FoldRange(LAMBDA acc, j : 2 * acc + Bit(x, start + j), 0, 0, w - 1)
\* pack a bit sequence (length multiple of 8) into bytes
BytesOfBits(bits) ==
  Arr(Len(bits) \div 8, LAMBDA k : FoldRange(LAMBDA acc, j : 2 * acc + bits[8 * (k - 1) + j], 0, 1, 8))
\* w-bit big-endian expansion of v (0 <= v < 2^w) as a bit sequence
BitsOfInt(v, w) == [j \in 1..w |-> (v \div (2 ^ (w - j))) % 2]
\* two's complement: value of a w-bit field u; encoding of v in w bits
FromTwos(u, w) == IF u >= 2 ^ (w - 1) THEN u - 2 ^ w ELSE u
ToTwos(v, w) == IF v < 0 THEN v + 2 ^ w ELSE v
IsBytes(x) == \A i \in 1..Len(x) : x[i] \in 0..255
=====================================================================
