------------------------------ MODULE MC_Fft ------------------------------
(* The index algebra behind the table characterisation of FftFacts.tla: with T[j] = w^brv10(j), w = exp(i pi/1024), *)
(*   brv10(2j) = brv10(j) / 2  (so T[2j]^2 = T[j]),  brv10(2j) < 512 (first quadrant: principal root),               *)
(*   brv10(2j+1) = brv10(2j) + 512 (so T[2j+1] = i T[2j]),  and brv10 is a bijection -- for every j in 0..511.        *)
(* Also: the split/merge index maps are mutually inverse permutations (Interleave, Evens, Odds).                  *)
EXTENDS FftFacts
VARIABLE j
Holds(jj) == /\ 2 * BitRev(2 * jj, 10) = BitRev(jj, 10)
             /\ BitRev(2 * jj, 10) < 512
             /\ BitRev(2 * jj + 1, 10) = BitRev(2 * jj, 10) + 512
             /\ BitRev(BitRev(jj, 10), 10) = jj
Perm == \A n \in {2, 4, 8, 16} : LET a == [i \in 1..n |-> 100 + i] IN
           Interleave2(Evens(a), Odds(a)) = a /\ Evens(Interleave2(a, a)) = a /\ Odds(Interleave2(a, a)) = a
Init == j \in 0..511
Next == UNCHANGED j
Spec == Init /\ [][Next]_j
Theorems == Holds(j) /\ (j = 0 => Perm)
=====================================================================
