---------------------------- MODULE Trace_Ntt ----------------------------
(* Trace validation of the real Z_q transforms and tables (hook wrappers) against Ntt.tla / Zq.tla.    *)
(*  {"ev":"tables","powers":[1024],"powers_inv":[1024],"ninv_n":[..],"ninv":[..]}                        *)
(*      Psi := powers[513] (bit reversal of 512 is 1).  Demanded: Psi^1024 = -1 (a primitive 2048-th      *)
(*      root), powers[j+1] = Psi^brv10(j), powers_inv[j+1] = Psi^-brv10(j), n * ninv = 1 for every n.    *)
(*  {"ev":"fft-basis","n","i","out"}: out[k+1] = psi_n^((2 brv(k)+1) i) with psi_n = Psi^(1024/n)          *)
(*      (the evaluation map; Psi = 1331^2... is fixed below as the value the table event must report).  *)
(*  {"ev":"fft","n","a","out"}: out = NttFwd(a) with the specification's own table for psi_n.            *)
(*  {"ev":"ifft","n","a","out"}: NttFwd(out) = a (the inverse transform on structured evaluation vectors).  *)
(*  {"ev":"roundtrip","n","a","out"}: out = a.   {"ev":"mul","n","a","b","out"}: out = a*b schoolbook.   *)
(* The root used by the code is read from the tables event of the same trace file shard 0; every      *)
(* other shard uses PsiCode below, which the tables event is also checked against.                    *)
EXTENDS Ntt, TraceLib
FQ == 12289
VARIABLES l, bad
vars == <<l, bad>>
\* 1331 is the 4096-th root the code starts from (falcon_field.rs); its square is the 2048-th root of the tables
PsiCode == (1331 * 1331) % FQ
PsiN(n) == PowM(PsiCode, 1024 \div n, FQ)

Judge(e) ==
  IF e.ev = "tables" THEN
    LET psi == e.powers[513]
        okroot == psi = PsiCode /\ PowM(psi, 1024, FQ) = FQ - 1
        ipsi == InvM(psi, FQ)
        badp == {j \in 0..1023 : e.powers[j + 1] # PowM(psi, BitRev(j, 10), FQ)}
        badi == {j \in 0..1023 : e.powers_inv[j + 1] # PowM(ipsi, BitRev(j, 10), FQ)}
        badn == {k \in 1..Len(e.ninv) : (e.ninv_n[k] * e.ninv[k]) % FQ # 1 \/ e.ninv[k] < 0 \/ e.ninv[k] >= FQ}
        ok == okroot /\ Len(e.powers) = 1024 /\ Len(e.powers_inv) = 1024 /\ badp = {} /\ badi = {} /\ badn = {}
                    /\ {e.ninv_n[k] : k \in 1..Len(e.ninv_n)} = {2 ^ w : w \in 0..10}
    IN [ok |-> ok, branch |-> "tables", detail |-> IF ok THEN <<1024, 1024, Len(e.ninv)>> ELSE <<"root-ok", okroot, "bad-powers", badp, "bad-inverse-powers", badi, "bad-ninv", badn>>]
  ELSE IF e.ev = "fft-basis" THEN
    LET n == e.n  w == Log2(n)  psi == PsiN(n)
        ok == Len(e.out) = n /\
              \A k \in 0..(n - 1) : e.out[k + 1] = PowM(psi, ((2 * BitRev(k, w) + 1) * e.i) % (2 * n), FQ)
    IN [ok |-> ok, branch |-> "fft-basis-n" \o ToString(n), detail |-> <<e.i>>]
  ELSE IF e.ev = "fft" THEN
    LET n == e.n  tab == SpecTable(FQ, PsiN(n), n)
        ok == e.out = NttFwd(e.a, tab, FQ)
    IN [ok |-> ok, branch |-> "fft-n" \o ToString(n), detail |-> <<>>]
  ELSE IF e.ev = "ifft" THEN
    \* the inverse transform applied directly to an evaluation vector a: the forward transform of the answer must be a
    LET n == e.n  tab == SpecTable(FQ, PsiN(n), n)
        ok == Len(e.out) = n /\ (\A i \in 1..n : e.out[i] >= 0 /\ e.out[i] < FQ) /\ NttFwd(e.out, tab, FQ) = e.a
    IN [ok |-> ok, branch |-> "ifft-n" \o ToString(n), detail |-> <<>>]
  ELSE IF e.ev = "roundtrip" THEN
    [ok |-> e.out = e.a, branch |-> "roundtrip-n" \o ToString(e.n), detail |-> <<>>]
  ELSE
    LET ok == e.out = NegacyclicMul(e.a, e.b, FQ)
    IN [ok |-> ok, branch |-> "mul-n" \o ToString(e.n), detail |-> <<>>]

ASSUME TLCSet(2, Force([i \in 1..NRec |-> Judge(Rec[i])]))
Judged == TLCGet(2)
Init == l = 1 /\ bad = {}
Next == /\ l <= NRec
        /\ LET j == Judged[l] IN
             /\ PrintT(<<"VERDICT", l, IF j.ok THEN "ok" ELSE "MISMATCH", j.branch, j.detail>>)
             /\ bad' = IF j.ok THEN bad ELSE bad \cup {l}
        /\ l' = l + 1
        /\ (IF l < NRec THEN TRUE ELSE PrintT(<<"DONE", NRec, bad'>>))
Spec == Init /\ [][Next]_vars
TraceAccepted == TLCGet("stats").diameter = NRec + 1
=====================================================================
