#!/bin/sh
# Offline setup: build the conformance harness (release profile with overflow checks) against /repo.
set -e
cd "$(dirname "$0")/harness"
export CARGO_NET_OFFLINE=true
cargo build --release --offline 2>&1 | tail -3
